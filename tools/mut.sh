#!/bin/sh
# usage: tools/mut.sh '<sed expr>' <file under /repo> <ID> [<ID>...]
# Apply a one-line mutation to /repo, run the repo tests and the given quick checks, revert.
expr="$1"; file="$2"; shift 2
cd /repo || exit 2
git diff --quiet || { echo "/repo has uncommitted changes"; exit 2; }
sed -i "$expr" "$file"
if git diff --quiet; then echo "MUTATION DID NOT APPLY"; exit 2; fi
git diff | grep '^[-+]' | grep -v '^[-+][-+]'
( cargo test --workspace --no-fail-fast --offline 2>&1 | grep -E "^test result|FAILED|error(\[|:)" | head -5 )
for id in "$@"; do
  ( cd /verif && ./check "$id" quick 2>&1 | grep -E "VIOLATION|key:|INCONCLUSIVE|exit=" | head -6 )
done
git -C /repo checkout -- .
