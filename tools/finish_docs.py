#!/usr/bin/env python3
"""Write seeded/MATRIX.md from the meta.json files and refresh the summary sentence in DESIGN.md 8.7."""
import json, os, re, subprocess
out = subprocess.run(["python3", "/verif/tools/seeded_table.py"], capture_output=True, text=True).stdout
open("/verif/seeded/MATRIX.md", "w").write(out)
n = fires = notrun = exit2 = caught = missed = 0
by_round = {}
for d in sorted(os.listdir("/verif/seeded")):
    mp = f"/verif/seeded/{d}/meta.json"
    if not os.path.exists(mp):
        continue
    m = json.load(open(mp)); own = m["breaks_property"]; n += 1
    runs = [r for r in m.get("runs", []) if own in r["fired"] or own in r["silent"] or own in r["inconclusive"]]
    if not runs: notrun += 1
    elif own in runs[-1]["fired"]: fires += 1
    elif own in runs[-1]["inconclusive"]: exit2 += 1
    fe = m.get("first_evaluation", "")
    if fe.startswith("caught"): caught += 1
    elif fe.startswith("missed"): missed += 1
ood = len(os.listdir("/verif/seeded_out_of_domain")); ref = len(os.listdir("/verif/seeded_refactorings"))
s = (f"{n} breaking changes are stored; in the latest run of each against its own property's quick check {fires} are reported as a violation, "
     f"{exit2} as INCONCLUSIVE (exit 2: a change that makes the parser loop forever - a hang is never reported as a violation), {n - fires - exit2 - notrun} not at all"
     + (f", {notrun} have not been run yet" if notrun else "") +
     f". When they arrived, {caught} were caught by the check as it stood and {missed} were missed and led to a strengthening (8.6); "
     f"the first {n - caught - missed} (rounds 1-3) predate that bookkeeping. {ood} further changes only differ outside the domain their property's check is built for "
     f"(`seeded_out_of_domain/`, each with the reason), and the {ref} behaviour-preserving refactorings leave all 20 checks silent.")
p = "/verif/DESIGN.md"; t = open(p).read()
if "@@SUMMARY@@" in t:
    t = t.replace("@@SUMMARY@@", "<!--SUMMARY-->" + s + "<!--/SUMMARY-->")
else:
    t = re.sub(r"<!--SUMMARY-->.*?<!--/SUMMARY-->", "<!--SUMMARY-->" + s + "<!--/SUMMARY-->", t, flags=re.S)
open(p, "w").write(t)
print(s)
