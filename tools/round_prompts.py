#!/usr/bin/env python3
"""Write the task files for one round of independent sub-agents (one per property) and create their scratch worktrees.

  round_prompts.py <round> PID...      -> /tmp/seeded<round>/<PID>.prompt.txt, worktrees /tmp/wt/R<PID>

Each agent is given only the text of its property, a scratch worktree of /repo, and the first lines of the notes of
every change already stored for that property as "used up". Launch one agent per file with:
  "Read the file /tmp/seeded<round>/<PID>.prompt.txt and carry out the task described there exactly. ..."
then `tools/round.py confirm` / `store`, `tools/lanes.py own`.
"""
import json, os, subprocess, sys
rnd = sys.argv[1]; pids = sys.argv[2:]
props = {json.loads(l)['id']: json.loads(l) for l in open('/verif/properties.jsonl')}
by = {}
for root in ('/verif/seeded', '/verif/seeded_out_of_domain'):
    for d in sorted(os.listdir(root)):
        mp = f'{root}/{d}/meta.json'
        if not os.path.exists(mp):
            continue
        m = json.load(open(mp))
        ls = [l.strip('# *').strip() for l in m['needs_to_manifest'].strip().splitlines() if l.strip()]
        by.setdefault(m['breaks_property'], []).append(' '.join(ls[:2])[:260])
T = '''You are helping to evaluate a verification setup for the Rust crate `digital_test_runner` (a library that parses and runs the test-case DSL of the "Digital" circuit simulator). You work ONLY inside your own scratch git worktree of the crate at: @WT@   (do not touch /repo, and do not read or use anything under /verif - it is off limits for this task). The sandbox has no network; build with `cargo ... --offline`. Other agents are building at the same time, so builds may be slow; be patient, and use `CARGO_BUILD_JOBS=4`. Never use `git stash` (the stash is shared between worktrees): undo with `git checkout -- .` after saving your diff.

The crate must satisfy this semantic property:

-----
@PROP@
-----

YOUR TASK: produce TWO different, independent source changes (call them `a` and `b`) to the crate under @WT@/src, each of which BREAKS the property above, while
  (1) the crate still compiles (with and without `--features verif-hooks`), and
  (2) the crate's existing test suite still passes completely:  cd @WT@ && cargo test --workspace --no-fail-fast --offline, and
  (3) the breakage is REALISTIC (the kind of bug a maintainer could plausibly introduce during a refactor, a clean-up or an "optimisation": an off-by-one, a wrong index, a stale cache, a swapped field, a missing reset, a condition that is right in the common case only, two sites that each look fine alone) and SUBTLE: it must need something specific to manifest - a multi-step sequence of operations, a fault or error item at a particular point with the caller carrying on afterwards, an unusual input shape, a particular nesting, a boundary value or count, a name collision, a second iterator or second parse, or two cooperating sites that each look fine alone. Do NOT produce changes that ordinary use of the crate would expose at once, and do not produce changes that merely panic on everything.
  Avoid "if input == magic constant then misbehave" backdoors: the trigger must be a structural condition that a real bug could have. Do not revert or weaken any of the crate's recent `fix:` commits (see `git log`), do not touch `src/verif_hooks.rs` or any line under `#[cfg(feature = "verif-hooks")]`, and make sure the change really violates the STATEMENT above as written (not merely some neighbouring behaviour): say in your notes which sentence or clause of the statement it falsifies.

Many changes have been tried against this property before. The following mechanisms are USED UP - do not resubmit them or close variants of them; look for a different site, a different trigger, or a different clause of the statement:
@USED@

Ideas that are still welcome (pick what fits the property; these are only hints): state that survives from one `next()` to a later one in a place nobody resets; behaviour that differs between the first and a later use of the same `TestCase` / `ParsedTestCase` / `dig::File`; clauses of the statement that look like side remarks; interactions between two features the statement mentions in different sentences; boundary counts (0, 1, 63, 64, 65) of columns, signals, rows, nesting levels, digits; things that only differ between a signal list in header order and one in another order, or between a header that names all signals and one that leaves some out; helper functions shared by two callers with slightly different needs; `Display`/`Debug`/`Clone`/`PartialEq` impls the public API exposes; error paths that are right for the first error only.

For EACH of the two changes, deliver in the directory @OUT@ :
  - `a.diff` / `b.diff`: the change as a unified diff produced by `git -C @WT@ diff` (relative to the worktree's HEAD, touching only files under src/). Make sure each diff applies on its own to a clean checkout (`git apply`). Produce change `a`, save its diff, then `git -C @WT@ checkout -- .` before starting change `b`.
  - `a_demo.rs` / `b_demo.rs`: a demonstration - a self-contained Rust integration test file (as it would sit in @WT@/tests/, using only the crate's PUBLIC API: `ParsedTestCase`, `Signal`, `TestDriver`, `TestCase::try_iter`, `try_iter_static`, `dig::File::parse`, `DataRowIterator::vars`, etc.) that FAILS with the change applied and PASSES without it. Verify both directions yourself by copying it to @WT@/tests/demo.rs and running `cargo test --offline --test demo` with and without the change; remove @WT@/tests/demo.rs afterwards.
  - `a.md` / `b.md`: 5-10 lines: first line = a one-line title of the change; then what the change does, which clause of the property it breaks, and exactly what is needed for it to manifest.

Useful orientation: src/lib.rs (public types, TestDriver trait), src/parser/* (parser), src/stmt.rs (statement iterator), src/data_row_iterator.rs (row expansion, driver calls), src/expr.rs + src/eval_context.rs + src/framed_map.rs (evaluation, scoping), src/parsed_test_case.rs (binding to signals), src/dig.rs (.dig loading), src/static_test.rs, README.md and the doc comment at the top of src/lib.rs (DSL description). Test DSL example: header line with signal names, then rows like `0 1 X`, statements `let a = 1;`, `loop(i,3) ... end loop`, `repeat(2) 0 1`, `while(c) ... end while`, `bits(4,expr)`, `C` = clock, `X` = don't care, `Z` = high impedance, `declare V = expr;` = virtual signal, `random(n)`, `resetRandom;`.

When you are done, leave the worktree clean (`git -C @WT@ status` shows no changes, no tests/demo.rs) and reply with a short summary of the two changes and confirmation of what you verified (compiles with/without the feature, the suite passes, demo fails with / passes without). If you can only find one convincing change, deliver one.
'''
os.makedirs(f'/tmp/seeded{rnd}', exist_ok=True); os.makedirs('/tmp/wt', exist_ok=True)
for pid in pids:
    p = props[pid]
    block = f"{pid} - {p['title']}\n\nSTATEMENT: {p['statement']}\n\nQUANTIFIED OVER: {p['quantifier']['text']}\n"
    used = '\n'.join(f'  - {t}' for t in by.get(pid, []))
    wt = f'/tmp/wt/R{pid}'; out = f'/tmp/seeded{rnd}/{pid}'
    os.makedirs(out, exist_ok=True)
    open(f'/tmp/seeded{rnd}/{pid}.prompt.txt', 'w').write(T.replace('@WT@', wt).replace('@OUT@', out).replace('@PROP@', block).replace('@USED@', used))
    if not os.path.exists(wt):
        subprocess.run(f'git -C /repo worktree add -q --detach {wt} HEAD', shell=True)
    print(pid, len(by.get(pid, [])), 'used-up entries')
