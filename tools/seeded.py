#!/usr/bin/env python3
"""Evaluate seeded changes.

  seeded.py confirm <patch.diff> <demo.rs>      confirm a candidate in a scratch worktree (outside /repo):
                                                compiles with/without hooks, repo tests pass, demo fails with / passes without
  seeded.py run <seeded-dir> [IDs...]           apply /verif/seeded/<dir>/patch.diff to /repo, run the quick checks
                                                (all by default), undo, and record what fired in meta.json
"""
import json, os, subprocess, sys, shutil, time

ALL = [f"C{i:02d}" for i in range(1, 21)]
# REPO_DIR / VERIF_DIR: evaluate in scratch copies (parallel lanes); default = the real thing
REPO = os.environ.get("REPO_DIR", "/repo")
VERIF = os.environ.get("VERIF_DIR", "/verif")

def sh(cmd, cwd=None, timeout=3600):
    r = subprocess.run(cmd, shell=True, cwd=cwd, capture_output=True, text=True, timeout=timeout)
    return r.returncode, r.stdout + r.stderr

def confirm(patch, demo):
    wt = "/tmp/wt/confirm-%d" % os.getpid()
    sh(f"git -C /repo worktree add -q --detach {wt} HEAD")
    res = {}
    try:
        shutil.copy(demo, f"{wt}/tests/demo.rs")
        rc, out = sh("cargo test --offline --test demo 2>&1 | tail -5", cwd=wt)
        res["demo_passes_without"] = "test result: ok" in out
        rc, out = sh(f"git apply {patch}", cwd=wt)
        res["applies"] = rc == 0
        rc, out = sh("cargo test --offline --test demo 2>&1 | tail -15", cwd=wt)
        res["demo_fails_with"] = "FAILED" in out or "panicked" in out
        os.remove(f"{wt}/tests/demo.rs")
        rc, out = sh("cargo test --workspace --no-fail-fast --offline 2>&1 | grep -E '^test result|FAILED|^error'", cwd=wt)
        res["repo_tests"] = out.strip().replace("\n", " | ")
        res["repo_tests_pass"] = "FAILED" not in out and "error" not in out and out.count("test result: ok") == 3
        rc, out = sh("cargo build --offline --features verif-hooks 2>&1 | tail -2", cwd=wt)
        res["builds_with_hooks"] = rc == 0 and "error" not in out
    finally:
        sh(f"git -C /repo worktree remove --force {wt}")
    print(json.dumps(res, indent=1))
    return res

def run(d, ids):
    base = d if os.path.isabs(d) else f"/verif/seeded/{d}"
    patch = f"{base}/patch.diff"
    rc, _ = sh(f"git -C {REPO} diff --quiet")
    if rc != 0:
        sys.exit("/repo has uncommitted changes")
    rc, out = sh(f"git -C {REPO} apply {patch}")
    if rc != 0:
        sys.exit("patch does not apply: " + out)
    fired = {}
    try:
        for i in ids:
            t = time.time()
            rc, out = sh(f"./check {i} quick", cwd=VERIF)
            keys = [l.strip()[5:] for l in out.splitlines() if l.strip().startswith("key:")]
            fired[i] = {"exit": rc, "keys": keys, "wall_s": round(time.time() - t, 1)}
            print(i, rc, keys, flush=True)
    finally:
        sh(f"git -C {REPO} checkout -- .")
    mp = f"{base}/meta.json"
    meta = json.load(open(mp)) if os.path.exists(mp) else {}
    meta.setdefault("runs", []).append({
        "verif_commit": sh("git -C /verif rev-parse --short HEAD")[1].strip(),
        "repo_commit": sh(f"git -C {REPO} rev-parse --short HEAD")[1].strip(),
        "tier": "quick", "seed": int(os.environ.get("VERIF_SEED", "0")),
        "fired": {k: v for k, v in fired.items() if v["exit"] == 1},
        "inconclusive": [k for k, v in fired.items() if v["exit"] == 2],
        "silent": [k for k, v in fired.items() if v["exit"] == 0],
    })
    json.dump(meta, open(mp, "w"), indent=1)

if __name__ == "__main__":
    if sys.argv[1] == "confirm":
        confirm(sys.argv[2], sys.argv[3])
    elif sys.argv[1] == "run":
        run(sys.argv[2], sys.argv[3:] or ALL)
