#!/usr/bin/env python3
"""Regenerate /verif/MANIFEST.json from the table below (keeps the file valid at all times)."""
import json, os, subprocess

ROOT = os.path.dirname(os.path.dirname(os.path.abspath(__file__)))

# id -> (technique, level text, level note, design ref)
TRUST = "Trusts the generator-side model, printer, static analysis and reference interpreter in harness/src (written from the property statements), the recording scripted TestDriver being the only path to the device, proptest, and catch_unwind."

def C(tech, text, note=""):
    return (tech, text + " Exploration, not proof: bounds in DESIGN.md section 4/7.", (note + " " if note else "") + TRUST)

CLAIMED = {
    "C01": C("proptest: generated programs vs reference interpreter (model-based differential)",
             "Generated control-flow programs (nesting <= 5), every row compared with an independent reference interpreter written from the property statement.",
             "Excludes let-rebinding of the innermost loop counter (statement ambiguous) and expression hazards (C10)."),
    "C02": C("proptest: generated programs + caller schedules, invariant over the driver call log",
             "Self-consistency between the recording driver's log and the yielded items, measured as the log delta of every API call (constructor, each next(), post-None calls, drop) for both driver types; closed formula for mid-clock row counts.",
             "Fault-free drivers only (faults are C13)."),
    "C03": C("proptest: generated output layouts and value histories vs the driver's own record + 3x3 verdict table",
             "Every checked row's outputs compared with what the recording driver returned for that signal in that call, for any subset/permutation layout and Z/X/boundary values; check()/is_checked()/failing_outputs() against an independent table."),
    "C05": C("proptest: generated row shapes vs reference expansion, checked on rows and on the driver call log",
             "Rows with 0-3 C and 0-5 X at any position and loop depth; reference expansion order against the row stream and the call log (method and vector).",
             "Columns bound both to an input and to an expected signal never hold X or C (statement contradicts itself there)."),
    "C07": C("exhaustive sweep widths 1..=64 x 40 boundary values x 3 delivery paths, plus proptest random (width, value) pairs; closed-form oracle",
             "value & (2^w-1) computed in u64 against the input as received by the driver, row.inputs and expected values on input, output, bidirectional and virtual columns."),
    "C08": C("proptest: generated expression trees printed with minimal/redundant parentheses vs independent evaluator",
             "Expression trees (depth <= 6, all operators, every radix, 64-bit boundary operands, boundary shift counts, hazards in unselected ite branches) evaluated by an independent evaluator and compared with the untruncated expected value of a 64-bit column."),
}

def props():
    out = []
    with open(os.path.join(ROOT, "properties.jsonl")) as f:
        for line in f:
            line = line.strip()
            if line:
                out.append(json.loads(line))
    return out

def hook_commits():
    try:
        r = subprocess.run(["git", "-C", "/repo", "log", "--format=%H %s"], capture_output=True, text=True)
        return [l.split()[0] for l in r.stdout.splitlines() if "verif hooks" in l or "verif-hooks" in l]
    except Exception:
        return []

def main():
    checks = []
    na = []
    for p in props():
        pid = p["id"]
        if pid in CLAIMED:
            tech, text, note = CLAIMED[pid]
            ref = f"DESIGN.md section 4, {pid}"
            checks.append({
                "property_id": pid,
                "quick_cmd": f"./check {pid} quick",
                "thorough_cmd": f"./check {pid} thorough",
                "evidence_file": f"/verif/evidence/{pid}.json",
                "replay_cmd_template": f"./check {pid} --replay {{path}}",
                "engine": "dtr-verif",
                "level_claimed": {"category": "exploration", "text": text, "design_ref": ref},
                "level_note": note,
                "technique": tech,
            })
        else:
            na.append({"property_id": pid, "reason": "check not built yet (work in progress; the technique applies, see DESIGN.md section 4)"})
    m = {
        "version": 1,
        "setup_cmd": "cd /verif/harness && CARGO_NET_OFFLINE=true cargo build --release --offline",
        "hooks": {
            "guard": "cargo feature verif-hooks (off by default)",
            "enable": "the harness depends on digital_test_runner by path (/repo) with features = [\"verif-hooks\"]",
            "baseline_off_cmd": "cd /repo && cargo test --workspace --no-fail-fast --offline",
            "source_commits": hook_commits(),
            "add_only": True,
        },
        "engines": [
            {"name": "dtr-verif", "path": "/verif/harness", "serves_properties": sorted(CLAIMED.keys()),
             "kind_free_text": "Rust binary: proptest 1.11 TestRunner over choice streams + reference interpreter + recording scripted TestDriver; libFuzzer targets under harness/fuzz for C09/C10/C16 thorough tiers"},
        ],
        "checks": checks,
        "notes": "Every command rebuilds the harness and /repo (path dependency, feature verif-hooks) from the current working tree. Exit 0 held / 1 VIOLATION / 2 inconclusive (hang, harness problem). Known findings: /verif/known_findings.json.",
        "not_applicable": na,
    }
    with open(os.path.join(ROOT, "MANIFEST.json"), "w") as f:
        json.dump(m, f, indent=1)
        f.write("\n")
    print(f"claimed {len(checks)}, not claimed {len(na)}")

if __name__ == "__main__":
    main()
