#!/usr/bin/env python3
"""Regenerate /verif/MANIFEST.json from the table below (keeps the file valid at all times)."""
import json, os, subprocess

ROOT = os.path.dirname(os.path.dirname(os.path.abspath(__file__)))

# id -> (technique, level text, level note, design ref)
CLAIMED = {
    "C01": ("proptest: generated programs vs reference interpreter (model-based differential)",
            "Generated-input search: tens of thousands of generated control-flow programs per run, every row of each compared with an independent reference interpreter written from the property statement. Exploration, not proof: bounded nesting (<=5), <=300 rows per program.",
            "Trusts the reference interpreter, printer and static analysis in harness/src (about 1 kLoC), proptest, and catch_unwind. Excludes let-rebinding of the innermost loop counter (statement ambiguous) and expression hazards (C10).",
            "DESIGN.md section 4 C01"),
}

def props():
    out = []
    with open(os.path.join(ROOT, "properties.jsonl")) as f:
        for line in f:
            line = line.strip()
            if line:
                out.append(json.loads(line))
    return out

def hook_commits():
    try:
        r = subprocess.run(["git", "-C", "/repo", "log", "--format=%H %s"], capture_output=True, text=True)
        return [l.split()[0] for l in r.stdout.splitlines() if "verif hooks" in l or "verif-hooks" in l]
    except Exception:
        return []

def main():
    checks = []
    na = []
    for p in props():
        pid = p["id"]
        if pid in CLAIMED:
            tech, text, note, ref = CLAIMED[pid]
            checks.append({
                "property_id": pid,
                "quick_cmd": f"./check {pid} quick",
                "thorough_cmd": f"./check {pid} thorough",
                "evidence_file": f"/verif/evidence/{pid}.json",
                "replay_cmd_template": f"./check {pid} --replay {{path}}",
                "engine": "dtr-verif",
                "level_claimed": {"category": "exploration", "text": text, "design_ref": ref},
                "level_note": note,
                "technique": tech,
            })
        else:
            na.append({"property_id": pid, "reason": "check not built yet (work in progress; the technique applies, see DESIGN.md section 4)"})
    m = {
        "version": 1,
        "setup_cmd": "cd /verif/harness && CARGO_NET_OFFLINE=true cargo build --release --offline",
        "hooks": {
            "guard": "cargo feature verif-hooks (off by default)",
            "enable": "the harness depends on digital_test_runner by path (/repo) with features = [\"verif-hooks\"]",
            "baseline_off_cmd": "cd /repo && cargo test --workspace --no-fail-fast --offline",
            "source_commits": hook_commits(),
            "add_only": True,
        },
        "engines": [
            {"name": "dtr-verif", "path": "/verif/harness", "serves_properties": sorted(CLAIMED.keys()),
             "kind_free_text": "Rust binary: proptest 1.11 TestRunner over choice streams + reference interpreter + recording scripted TestDriver; libFuzzer targets under harness/fuzz for C09/C10/C16 thorough tiers"},
        ],
        "checks": checks,
        "notes": "Every command rebuilds the harness and /repo (path dependency, feature verif-hooks) from the current working tree. Exit 0 held / 1 VIOLATION / 2 inconclusive (hang, harness problem). Known findings: /verif/known_findings.json.",
        "not_applicable": na,
    }
    with open(os.path.join(ROOT, "MANIFEST.json"), "w") as f:
        json.dump(m, f, indent=1)
        f.write("\n")
    print(f"claimed {len(checks)}, not claimed {len(na)}")

if __name__ == "__main__":
    main()
