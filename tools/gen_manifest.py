#!/usr/bin/env python3
"""Regenerate /verif/MANIFEST.json from the table below (keeps the file valid at all times)."""
import json, os, subprocess

ROOT = os.path.dirname(os.path.dirname(os.path.abspath(__file__)))

# id -> (technique, level text, level note, design ref)
TRUST = "Trusts the generator-side model, printer, static analysis and reference interpreter in harness/src (written from the property statements), the recording scripted TestDriver being the only path to the device, proptest, and catch_unwind."

def C(tech, text, note=""):
    return (tech, text + " Exploration, not proof: bounds in DESIGN.md section 4/7.", (note + " " if note else "") + TRUST)

CLAIMED = {
    "C01": C("proptest: generated programs vs reference interpreter (model-based differential), incl. planted failing statements with the caller iterating on",
             "Generated control-flow programs (nesting <= 5, wide-bus bits() up to 64), every row compared with an independent reference interpreter written from the property statement; a run-away next() (step fuel) is a violation; in a third of the cases statements that cannot be evaluated are planted and the sequential reading must go on after each error item.",
             "Excludes let-rebinding of the innermost loop counter (statement ambiguous). Operands fully parenthesised, decimal literals, no variable named like a signal, constant device: what those vary is decided by C08, C20, C04."),
    "C02": C("proptest: generated programs + caller schedules, invariant over the driver call log",
             "Self-consistency between the recording driver's log and the yielded items, measured as the log delta of every API call (constructor, each next(), post-None calls, drop) for both driver types; closed formula for mid-clock row counts.",
             "Fault-free drivers only (faults are C13)."),
    "C03": C("proptest: generated output layouts and value histories vs the driver's own record + 3x3 verdict table",
             "Every checked row's outputs compared with what the recording driver returned for that signal in that call, for any subset/permutation layout and Z/X/boundary values; check()/is_checked()/failing_outputs() against an independent table."),
    "C05": C("proptest: tagged rows; expansion structure checked per evaluation from the row's known shape (self-consistency, no reference values), incl. driver call log",
             "Each evaluation of a source row must yield 2^k assignments (leftmost X fastest, 0 first) x (one checked item | 0-1-0 triple with only the third checked and read); other inputs and all expected values held; literal expected X/Z passed through; exactly one call per item, right method, vector verbatim.",
             "Columns bound both to an input and to an expected signal never hold X or C (statement contradicts itself there)."),
    "C07": C("exhaustive sweep widths 1..=64 x 40 boundary values x 3 delivery paths, plus proptest random (width, value) pairs; closed-form oracle",
             "value & (2^w-1) computed in u64 against the input as received by the driver, row.inputs and expected values on input, output, bidirectional and virtual columns."),
    "C08": C("proptest: generated expression trees printed with minimal/redundant parentheses vs independent evaluator",
             "Expression trees (depth <= 6, all operators, every radix, 64-bit boundary operands, boundary shift counts, hazards in unselected ite branches) evaluated by an independent evaluator and compared with the untruncated expected value of a 64-bit column."),
    "C04": C("proptest: tagged rows with device-read probes; oracle = the recording driver's own log (self-consistency, no reference values)",
             "Every item's probe `(Q)` must show the value the driver returned for Q in the latest call made for a checked item (or by the constructor) before the source row was evaluated; Z/X there => error item; a shadowing variable wins (vs vars()); an omitted read signal => constructor error after exactly one call."),
    "C06": C("proptest: generated signal lists x headers (subset, permutation, split pairs) vs closed-form binding oracle",
             "Every row's inputs/outputs compared entry by entry with closed formulas (list order, by-name binding, defaults, X for omitted expected); changed-flag implication checked against the driver log."),
    "C09": C("proptest token soup + mutated valid programs; libFuzzer target parse_bytes in the thorough tier; totality + span-validity oracle",
             "Any text parses to Ok or Err without panic; every error span lies in the source on char boundaries; formatting the error with its causes and rendering it with miette's graphical handler must not panic.",
             "Inputs bounded in nesting depth (native stack exhaustion is outside the statement); a hang is reported as inconclusive (exit 2)."),
    "C10": C("proptest chaos profile + libFuzzer target run_structured (thorough); no-panic oracle + planted unconditionally executed hazards that must surface as an error item",
             "Accepted tests with every hazard source (division by zero, unassigned variables, empty random ranges, signExt, boundary arithmetic, widths to 64, shared columns, Z/X answers, driver errors) never panic; in half of the cases a top-level statement that cannot be evaluated whatever the values are is planted, and a run that reaches the end of iteration must contain an error item.",
             "Programs that do not terminate by construction are not generated; a run-away next() (step fuel) is a discard here and a violation in C01."),
    "C11": C("proptest: fitted signal list + 0-2 list edits vs independent static-analysis oracle (iff), accepted tests iterated",
             "with_signals verdict compared with the four clauses of the statement evaluated on the model by an independent scope analysis; accepted tests are iterated to the end with an honest driver."),
    "C12": C("proptest: valid generated program + one of 19 grammar-breaking edit kinds, each with and without final newline; must-reject oracle",
             "Each edit kind is invalid by a grammar argument written next to its implementation; both newline variants must be rejected, by str::parse and (one text in four) as the source of a test in a .dig document loaded with load_test; bits widths above 64 also in headers of 66-90 columns."),
    "C13": C("proptest fault injection: failure at every call index / nine deviation kinds (also repeated at a later checked row), metamorphic against the fault-free run",
             "Driver errors reach the caller as that very error at exactly the failing item; layout deviations make that item an error; earlier items equal the fault-free run."),
    "C14": C("proptest: tagged rows; declared expressions evaluated by an independent evaluator over the recording driver's answers of the same call (self-consistency, no reference run)",
             "Per checked row: every virtual entry is 64 bits wide and shows the declared expression evaluated over the answers of that very call with no variables; a Z/X read => the item must be an error item; expected value = the literal in its column or X; the caller keeps iterating after error items."),
    "C15": C("proptest: repeated parses, interleaved iterators by generated schedules, static-vs-dynamic metamorphic comparison",
             "Parse/bind equality across 2-8 parses, 1-4 interleaved iterators vs a sequential run, a clone and a used TestCase vs a freshly bound one under a driver with another output order, try_iter_static gate vs independent static analysis, static rows vs dynamic rows under two scripts.",
             "One open known finding (unassigned variable named like an output) is stepped over, see known_findings.json."),
    "C16": C("proptest: generated circuit descriptions rendered as .dig XML + corruptions of them and of the fixtures; libFuzzer target dig_bytes (thorough)",
             "Totality on any text; interface recovery (labelled pins as a multiset, bidirectional inference iff stated condition), tests verbatim in order, load_test / load_test_by_name equations."),
    "C17": C("proptest: the crate's hook event log checked for self-consistency, planted probes with unique bounds, metamorphic straight-line control program (no reference run)",
             "One generator draw per random evaluation, range, reset replay and same-seed determinism from the log alone; planted `(random(B_r))`, `bits(2,random(B))`, `declare VR = random(B)` and a top-level row/resetRandom/row triple with unique bounds tie draws to evaluations and to the values rows show; random(7919) in unselected ite branches must never draw; a straight-line control program with the same random/resetRandom sequence and seed must draw the same values.",
             "Needs the add-only verif-hooks feature; the original draw expression stays what executes."),
    "C18": C("proptest: tagged rows with probe inputs; vars() vs an independent static scope analysis and vs the crate's own evaluation of (v) (self-consistency, no reference values)",
             "After every yielded row: every variable definitely in scope at that source row is reported, nothing that cannot be in scope there is reported (ended loops, device outputs, virtual signals), and each probed variable has exactly the value the crate itself evaluated `(v)` to in that row (innermost binding wins); also after error items caused by virtual signals."),
    "C19": C("proptest: generated layouts with tagged rows; printer's line table as oracle (no control-flow semantics)",
             "Every yielded row (dynamic and static) carries a tag in a dedicated input column; row.line must equal the line the printer put that row on, for LF/CRLF, leading blank lines, comment/blank lines, missing final newline."),
    "C20": C("proptest metamorphic: one token sequence printed in two layouts",
             "Canonical vs re-laid-out text (blank space, tabs, CR, comments, inserted lines, literal radix): same parse and bind verdicts, equal rows except line, which moves with the row; also for programs broken by one edit."),
}

def props():
    out = []
    with open(os.path.join(ROOT, "properties.jsonl")) as f:
        for line in f:
            line = line.strip()
            if line:
                out.append(json.loads(line))
    return out

def hook_commits():
    try:
        r = subprocess.run(["git", "-C", "/repo", "log", "--format=%H %s"], capture_output=True, text=True)
        return [l.split()[0] for l in r.stdout.splitlines() if "verif hooks" in l or "verif-hooks" in l]
    except Exception:
        return []

def main():
    checks = []
    na = []
    for p in props():
        pid = p["id"]
        if pid in CLAIMED:
            tech, text, note = CLAIMED[pid]
            ref = f"DESIGN.md section 4, {pid}"
            checks.append({
                "property_id": pid,
                "quick_cmd": f"./check {pid} quick",
                "thorough_cmd": f"./check {pid} thorough",
                "evidence_file": f"/verif/evidence/{pid}.json",
                "replay_cmd_template": f"./check {pid} --replay {{path}}",
                "engine": "dtr-verif",
                "level_claimed": {"category": "exploration", "text": text, "design_ref": ref},
                "level_note": note,
                "technique": tech,
            })
        else:
            na.append({"property_id": pid, "reason": "check not built yet (work in progress; the technique applies, see DESIGN.md section 4)"})
    m = {
        "version": 1,
        "setup_cmd": "cd /verif/harness && CARGO_NET_OFFLINE=true cargo build --release --offline && (cd /verif/harness && CARGO_NET_OFFLINE=true cargo +nightly fuzz build 2>&1 | tail -3 || true)",
        "hooks": {
            "guard": "cargo feature verif-hooks (off by default): draw log + seed override (C17, C15), step fuel for the statement iterator (run-away next() becomes a catchable result)",
            "enable": "the harness depends on digital_test_runner by path (/repo) with features = [\"verif-hooks\"]",
            "baseline_off_cmd": "cd /repo && cargo test --workspace --no-fail-fast --offline",
            "source_commits": hook_commits(),
            "add_only": True,
        },
        "engines": [
            {"name": "dtr-verif", "path": "/verif/harness", "serves_properties": sorted(CLAIMED.keys()),
             "kind_free_text": "Rust binary: proptest 1.11 TestRunner over choice streams + reference interpreter + recording scripted TestDriver; libFuzzer targets under harness/fuzz for C09/C10/C16 thorough tiers"},
        ],
        "checks": checks,
        "notes": "Every command rebuilds the harness and /repo (path dependency, feature verif-hooks) from the current working tree. Exit 0 held / 1 VIOLATION / 2 inconclusive (hang, harness problem). Known findings: /verif/known_findings.json.",
        "not_applicable": na,
    }
    with open(os.path.join(ROOT, "MANIFEST.json"), "w") as f:
        json.dump(m, f, indent=1)
        f.write("\n")
    print(f"claimed {len(checks)}, not claimed {len(na)}")

if __name__ == "__main__":
    main()
