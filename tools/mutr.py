#!/usr/bin/env python3
"""usage: mutr.py <file under /repo> <old> <new> <ID> [<ID>...]   (exact-string replacement, first occurrence)
Apply a mutation to /repo, run the repo tests and the given quick checks, revert."""
import subprocess, sys
f, old, new, ids = sys.argv[1], sys.argv[2], sys.argv[3], sys.argv[4:]
old = old.encode().decode('unicode_escape'); new = new.encode().decode('unicode_escape')
if subprocess.run(["git", "-C", "/repo", "diff", "--quiet"]).returncode != 0:
    sys.exit("/repo has uncommitted changes")
p = "/repo/" + f
s = open(p).read()
if old not in s:
    sys.exit("MUTATION DID NOT APPLY")
open(p, "w").write(s.replace(old, new, 1))
try:
    r = subprocess.run("cd /repo && cargo test --workspace --no-fail-fast --offline 2>&1 | grep -E '^test result|FAILED|^error' | head -4", shell=True, capture_output=True, text=True)
    print(r.stdout.strip())
    for i in ids:
        r = subprocess.run(f"cd /verif && ./check {i} quick 2>&1 | grep -E 'VIOLATION|key:|INCONCLUSIVE|exit=' | head -5", shell=True, capture_output=True, text=True)
        print(r.stdout.strip())
finally:
    subprocess.run(["git", "-C", "/repo", "checkout", "--", "."])
