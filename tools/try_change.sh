#!/bin/bash
# usage: R=<round> tools/try_change.sh PID a|b [check ids...]   apply /tmp/seeded$R/PID/<v>.diff to /repo, run the quick checks, undo
pid=$1; v=$2; shift 2; ids=${@:-$pid}
cd /repo && git diff --quiet || { echo "/repo dirty"; exit 2; }
git apply /tmp/seeded${R:-20}/$pid/$v.diff || { echo "no apply"; exit 2; }
for id in $ids; do
 (cd /verif && ./check $id quick 2>&1 | grep -E "VIOLATION|key:|INCONCLUSIVE|exit=" | head -4 | sed "s/^/$pid$v $id: /")
done
git -C /repo checkout -- .
