#!/usr/bin/env python3
"""Print the markdown table of seeded changes and which quick checks fired (latest run in each meta.json)."""
import json, os
rows = []
for d in sorted(os.listdir('/verif/seeded')):
    m = json.load(open(f'/verif/seeded/{d}/meta.json'))
    full = [r for r in m['runs'] if len(r['fired']) + len(r['inconclusive']) + len(r['silent']) == 20]
    run = full[-1] if full else None
    first = m['needs_to_manifest'].strip().splitlines()
    title = next((l.strip('# *').strip() for l in first if l.strip()), '')
    if run:
        fired = ', '.join(f"{k} `{v['keys'][0] if v['keys'] else ''}`" for k, v in sorted(run['fired'].items()))
        inc = ', '.join(run['inconclusive'])
        own = m['breaks_property'] in run['fired']
    else:
        fired, inc, own = '(not run)', '', False
    rows.append((d, m['breaks_property'], title[:110], 'yes' if own else 'NO', fired, inc))
print('| id | breaks | change (first line of the author\'s note) | own check fires | all checks that fire (first key) | exit 2 |')
print('|---|---|---|---|---|---|')
for r in rows:
    print('| ' + ' | '.join(r) + ' |')
