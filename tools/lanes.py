#!/usr/bin/env python3
"""Run seeded changes against quick checks in parallel scratch lanes (outside /repo and /verif).

  lanes.py own  <N> [ids...]     every stored change (or the given ones) against its own property's quick check
  lanes.py all  <N> ids...       the given changes against all 20 quick checks
  lanes.py clean                 remove the lanes

A lane = a git worktree of /repo's HEAD at /tmp/lane<i>/repo plus a copy of the harness manifest at
/tmp/lane<i>/verif/harness whose path dependency points at that worktree and whose src is a copy of
/verif/harness/src taken when the run starts. Results are appended to the meta.json of each change by tools/seeded.py.
"""
import json, os, subprocess, sys, threading, queue, shutil

def sh(c):
    return subprocess.run(c, shell=True, capture_output=True, text=True)

def setup(i):
    L = f"/tmp/lane{i}"
    if os.path.exists(L):
        sh(f"git -C {L}/repo checkout -- . ; git -C {L}/repo checkout -q --detach $(git -C /repo rev-parse HEAD)")
        h = f"{L}/verif/harness"
        if os.path.islink(f"{h}/src"):
            os.unlink(f"{h}/src")
        sh(f"rsync -a --delete /verif/harness/src/ {h}/src/")
        return L
    os.makedirs(f"{L}/verif/harness")
    sh(f"git -C /repo worktree add -q --detach {L}/repo HEAD")
    h = f"{L}/verif/harness"
    sh(f"rsync -a --delete /verif/harness/src/ {h}/src/")  # a copy: the harness may be edited while a matrix runs
    shutil.copy("/verif/harness/Cargo.lock", h)
    shutil.copytree("/verif/harness/.cargo", f"{h}/.cargo")
    t = open("/verif/harness/Cargo.toml").read().replace('path = "/repo"', f'path = "{L}/repo"')
    open(f"{h}/Cargo.toml", "w").write(t)
    for f in ("known_findings.json", "findings", "properties.jsonl"):
        os.symlink(f"/verif/{f}", f"{L}/verif/{f}")
    shutil.copy("/verif/check", f"{L}/verif/check")
    os.makedirs(f"{L}/verif/evidence"); os.makedirs(f"{L}/verif/replays")
    return L

def main():
    mode = sys.argv[1]
    if mode == "clean":
        for d in os.listdir("/tmp"):
            if d.startswith("lane"):
                sh(f"git -C /repo worktree remove --force /tmp/{d}/repo"); shutil.rmtree(f"/tmp/{d}", ignore_errors=True)
        sh("git -C /repo worktree prune"); return
    n = int(sys.argv[2]); ids = sys.argv[3:]
    if not ids:
        ids = sorted(d for d in os.listdir("/verif/seeded") if os.path.exists(f"/verif/seeded/{d}/meta.json"))
    q = queue.Queue()
    for d in ids: q.put(d)
    res = {}
    def work(i):
        L = setup(i)
        env = dict(os.environ, REPO_DIR=f"{L}/repo", VERIF_DIR=f"{L}/verif")
        while True:
            try: d = q.get_nowait()
            except queue.Empty: return
            base = d if os.path.isabs(d) else f"/verif/seeded/{d}"
            own = json.load(open(f"{base}/meta.json")).get("breaks_property", "-")
            args = own if mode == "own" else os.environ.get("LANE_CHECKS", "")  # LANE_CHECKS="C01 C13": only these checks in mode all
            r = subprocess.run(f"python3 /verif/tools/seeded.py run {d} {args}", shell=True, env=env, capture_output=True, text=True)
            lines = [l for l in r.stdout.splitlines() if l.startswith("C")]
            fired = [l.split()[0] + ("(exit 2)" if l.split()[1] == "2" else "") for l in lines if l.split()[1] in ("1", "2")]
            ownline = next((l for l in lines if l.startswith(own + " ")), "" if mode == "all" else r.stdout[-200:] + r.stderr[-200:])
            res[d] = ownline
            print(f"{os.path.basename(d)} own={own}: {ownline}" + (f"  fired={fired}" if mode == "all" else ""), flush=True)
    base = int(os.environ.get("LANE_BASE", "0"))  # first lane number (two matrices at once use different lanes)
    ts = [threading.Thread(target=work, args=(base + i,)) for i in range(n)]
    for t in ts: t.start()
    for t in ts: t.join()
    miss = [d for d, l in res.items() if len(l.split()) < 2 or l.split()[1] != "1"]
    if mode == "own":
        print("MISSES:", miss)

main()
