#!/usr/bin/env python3
"""Confirm and store the deliverables of one round of sub-agents.

  round.py confirm <dir> <round> PID...   for each PID and each of a/b under <dir>/<PID>/: confirm in a scratch worktree
                                          (tools/seeded.py confirm) -> <dir>/confirm.json
  round.py store <dir> <round> <sfx_a> <sfx_b> PID...   copy confirmed candidates to /verif/seeded/<PID><sfx>/
"""
import json, os, sys, shutil, subprocess
sys.path.insert(0, "/verif/tools")

def confirm_one(patch, demo, tag):
    wt = f"/tmp/wt/confirm-{tag}"
    def sh(c, cwd=None):
        r = subprocess.run(c, shell=True, cwd=cwd, capture_output=True, text=True); return r.returncode, r.stdout + r.stderr
    sh(f"git -C /repo worktree add -q --detach {wt} HEAD")
    res = {}
    env = "CARGO_BUILD_JOBS=4 "
    try:
        shutil.copy(demo, f"{wt}/tests/demo.rs")
        rc, out = sh(env + "cargo test --offline --test demo 2>&1 | tail -5", cwd=wt)
        res["demo_passes_without"] = "test result: ok" in out
        rc, out = sh(f"git apply {patch}", cwd=wt)
        res["applies"] = rc == 0
        rc, out = sh("git diff --stat | tail -1", cwd=wt); res["diffstat"] = out.strip()
        rc, out = sh("git diff --name-only", cwd=wt); res["only_src"] = all(l.startswith("src/") for l in out.split())
        rc, out = sh(env + "cargo test --offline --test demo 2>&1 | tail -15", cwd=wt)
        res["demo_fails_with"] = "FAILED" in out or "panicked" in out
        os.remove(f"{wt}/tests/demo.rs")
        rc, out = sh(env + "cargo test --workspace --no-fail-fast --offline 2>&1 | grep -E '^test result|FAILED|^error'", cwd=wt)
        res["repo_tests"] = out.strip().replace("\n", " | ")
        res["repo_tests_pass"] = "FAILED" not in out and "error" not in out and out.count("test result: ok") == 3
        rc, out = sh(env + "cargo build --offline --features verif-hooks 2>&1 | tail -2", cwd=wt)
        res["builds_with_hooks"] = rc == 0 and "error" not in out
    finally:
        sh(f"git -C /repo worktree remove --force {wt}")
    res["ok"] = all(res.get(k) for k in ("demo_passes_without", "applies", "only_src", "demo_fails_with", "repo_tests_pass", "builds_with_hooks"))
    return res

def main():
    mode, d, rnd = sys.argv[1], sys.argv[2], int(sys.argv[3])
    cf = f"{d}/confirm.json"
    conf = json.load(open(cf)) if os.path.exists(cf) else {}
    if mode == "confirm":
        from concurrent.futures import ThreadPoolExecutor
        jobs = []
        for pid in sys.argv[4:]:
            for v in "ab":
                if os.path.exists(f"{d}/{pid}/{v}.diff") and os.path.exists(f"{d}/{pid}/{v}_demo.rs") and f"{pid}-{v}" not in conf:
                    jobs.append((pid, v))
        def run(j):
            pid, v = j
            r = confirm_one(f"{d}/{pid}/{v}.diff", f"{d}/{pid}/{v}_demo.rs", f"{rnd}-{pid}-{v}")
            print(pid, v, "OK" if r["ok"] else "NOT CONFIRMED " + json.dumps(r), flush=True)
            return (f"{pid}-{v}", r)
        with ThreadPoolExecutor(4) as ex:
            for k, r in ex.map(run, jobs):
                conf[k] = r
        json.dump(conf, open(cf, "w"), indent=1)
    elif mode == "store":
        sa, sb = sys.argv[4], sys.argv[5]
        for pid in sys.argv[6:]:
            for v, s in (("a", sa), ("b", sb)):
                c = conf.get(f"{pid}-{v}")
                if not c or not c["ok"]:
                    continue
                sid = f"{pid}{s}"; dst = f"/verif/seeded/{sid}"
                if os.path.exists(dst):
                    continue
                os.makedirs(dst)
                shutil.copy(f"{d}/{pid}/{v}.diff", f"{dst}/patch.diff")
                shutil.copy(f"{d}/{pid}/{v}_demo.rs", f"{dst}/demo.rs")
                notes = open(f"{d}/{pid}/{v}.md").read() if os.path.exists(f"{d}/{pid}/{v}.md") else ""
                open(f"{dst}/notes.md", "w").write(notes)
                meta = {"id": sid, "breaks_property": pid, "round": rnd,
                        "origin": f"independent sub-agent (round {rnd}) given only the property text, a list of used-up mechanisms and a scratch worktree of /repo",
                        "needs_to_manifest": notes,
                        "confirmed": dict(how="scratch worktree outside /repo: demo.rs as tests/demo.rs without and with patch.diff; cargo test --workspace; cargo build --features verif-hooks", **c),
                        "first_evaluation": "", "runs": []}
                json.dump(meta, open(f"{dst}/meta.json", "w"), indent=1)
                print("stored", sid)
main()
