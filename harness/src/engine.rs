//! Engine: proptest runners over choice streams, panic capture, watchdog, evidence,
//! replay files and known findings (DESIGN 2.3, 2.7, 2.8).

use std::cell::{Cell, RefCell};
use std::collections::{BTreeMap, HashSet};
use std::path::{Path, PathBuf};
use std::sync::atomic::{AtomicBool, AtomicU64, Ordering};
use std::sync::Arc;
use std::time::Instant;

use proptest::collection::vec as pvec;
use proptest::prelude::*;
use proptest::test_runner::{Config, RngSeed, TestCaseError, TestError, TestRunner};
use serde_json::{json, Value};

use crate::choice::{hash_str, mix3};

pub type Streams = [Vec<u32>; 3];

#[derive(Clone, Copy, Debug, PartialEq, Eq)]
pub enum Tier {
    Quick,
    Thorough,
}

impl Tier {
    pub fn name(self) -> &'static str {
        match self {
            Tier::Quick => "quick",
            Tier::Thorough => "thorough",
        }
    }
}

#[derive(Clone, Debug)]
pub enum Verdict {
    Pass,
    /// the case is outside the property's domain (counted, never a verdict)
    Discard(&'static str),
    Fail { key: String, msg: String },
}

#[derive(Clone, Debug)]
pub struct CaseOut {
    pub verdict: Verdict,
    pub nontrivial: bool,
    /// classes this case belongs to (histogram in the evidence)
    pub classes: Vec<&'static str>,
    /// the rendered case: (field, text)
    pub render: Vec<(&'static str, String)>,
    /// a run-away next() (step fuel of verif-hooks used up) is a violation of this property:
    /// only set by checks whose reference run has shown that the program terminates
    pub fuel_is_violation: bool,
    /// a panic inside the crate is a violation of this property (parse: C09/C12, bind: C11,
    /// run: C10, faulty driver: C13, .dig: C16); elsewhere it only means that the property's
    /// observable could not be produced, and the case is discarded (counted)
    pub owns_panics: bool,
}

impl CaseOut {
    pub fn new() -> Self {
        CaseOut { verdict: Verdict::Pass, nontrivial: false, classes: vec![], render: vec![], fuel_is_violation: false, owns_panics: false }
    }
    pub fn fail(&mut self, key: impl Into<String>, msg: impl Into<String>) {
        let key = key.into();
        if key.contains("verif-hooks: deadline passed") {
            // slowness or a hang: never a verdict
            self.discard("deadline-passed");
            return;
        }
        if key.contains("verif-hooks: fuel exhausted") && !self.fuel_is_violation {
            // without a reference run nobody knows whether the program terminates at all
            self.discard("fuel-exhausted");
            return;
        }
        if key.starts_with("panic:") && !key.contains("verif-hooks: fuel exhausted") && !self.owns_panics {
            self.discard("panic-owned-by-another-property");
            return;
        }
        if matches!(self.verdict, Verdict::Pass) {
            self.verdict = Verdict::Fail { key, msg: msg.into() };
        }
    }
    pub fn discard(&mut self, why: &'static str) {
        if matches!(self.verdict, Verdict::Pass) {
            self.verdict = Verdict::Discard(why);
        }
    }
    pub fn class(&mut self, c: &'static str) {
        if !self.classes.contains(&c) {
            self.classes.push(c);
        }
    }
    pub fn class_if(&mut self, cond: bool, c: &'static str) {
        if cond {
            self.class(c)
        }
    }
    pub fn put(&mut self, k: &'static str, v: impl Into<String>) {
        self.render.push((k, v.into()));
    }
    pub fn is_fail(&self) -> bool {
        matches!(self.verdict, Verdict::Fail { .. })
    }
    pub fn hash(&self) -> u64 {
        let mut h = 0u64;
        for (k, v) in &self.render {
            h = mix3(h, hash_str(k), hash_str(v));
        }
        h
    }
    pub fn render_json(&self) -> Value {
        let mut m = serde_json::Map::new();
        for (k, v) in &self.render {
            m.insert(k.to_string(), Value::String(v.clone()));
        }
        Value::Object(m)
    }
}

impl Default for CaseOut {
    fn default() -> Self {
        Self::new()
    }
}

/// A plain regression check that bypasses the library
pub struct Regression {
    pub name: &'static str,
    pub run: fn() -> Result<(), String>,
}

pub trait Property: Sync + Send {
    fn id(&self) -> &'static str;
    /// how cases are generated and what makes one non-trivial / distinct
    fn rule(&self) -> &'static str;
    /// maximal length of each choice stream
    fn stream_lens(&self) -> [usize; 3] {
        [400, 200, 60]
    }
    /// total number of cases per tier
    fn cases(&self, tier: Tier) -> u64;
    fn run(&self, s: &Streams) -> CaseOut;
    fn regressions(&self) -> Vec<Regression> {
        vec![]
    }
    /// classes that must be non-empty in every run (vacuity guard)
    fn required_classes(&self) -> Vec<&'static str> {
        vec![]
    }
    fn assumptions(&self) -> Vec<&'static str> {
        vec![]
    }
    /// deterministic extra cases run before the random ones (e.g. an exhaustive sweep)
    fn sweep(&self) -> Vec<Streams> {
        vec![]
    }
    /// optional: libFuzzer targets serving this property (thorough tier)
    fn fuzz_targets(&self) -> Vec<&'static str> {
        vec![]
    }
    /// optional: run the property's oracle on a raw text / byte input (fuzz artifacts)
    fn check_raw(&self, _kind: &str, _data: &[u8]) -> Option<(String, String)> {
        None
    }
}

// ---------------------------------------------------------------------------------------------
// known findings

#[derive(Clone, Debug)]
pub struct KnownFinding {
    pub property: String,
    pub key: String,
    pub open: bool,
    pub what: String,
}

pub fn verif_root() -> PathBuf {
    if let Ok(p) = std::env::var("VERIF_ROOT") {
        return PathBuf::from(p);
    }
    Path::new(env!("CARGO_MANIFEST_DIR")).parent().unwrap().to_path_buf()
}

pub fn load_known() -> Vec<KnownFinding> {
    let p = verif_root().join("known_findings.json");
    let Ok(text) = std::fs::read_to_string(&p) else { return vec![] };
    let Ok(v) = serde_json::from_str::<Value>(&text) else {
        eprintln!("warning: cannot parse {}", p.display());
        return vec![];
    };
    let mut out = vec![];
    if let Some(arr) = v.get("findings").and_then(|a| a.as_array()) {
        for e in arr {
            out.push(KnownFinding {
                property: e["property"].as_str().unwrap_or("").to_string(),
                key: e["key"].as_str().unwrap_or("").to_string(),
                open: e["status"].as_str() == Some("open"),
                what: e["what"].as_str().unwrap_or("").to_string(),
            });
        }
    }
    out
}

// ---------------------------------------------------------------------------------------------

#[derive(Default)]
struct WorkerStats {
    evaluations: u64,
    discards: BTreeMap<&'static str, u64>,
    classes: BTreeMap<&'static str, u64>,
    nontrivial: HashSet<u64>,
    nontrivial_total: u64,
    samples: Vec<Value>,
    excluded_known: BTreeMap<String, u64>,
    excluded_foreign: BTreeMap<String, u64>,
}

#[derive(Clone, Debug)]
pub struct Failure {
    pub streams: Streams,
    pub key: String,
    pub msg: String,
    pub render: Value,
}

fn seed_for(id: &str, seed: u64, worker: usize) -> u64 {
    mix3(seed, hash_str(id), worker as u64)
}

fn account(out: &CaseOut, st: &mut WorkerStats, sample_cap: usize) {
    st.evaluations += 1;
    for c in &out.classes {
        *st.classes.entry(c).or_insert(0) += 1;
    }
    if let Verdict::Discard(why) = &out.verdict {
        *st.discards.entry(why).or_insert(0) += 1;
        return;
    }
    if out.nontrivial {
        st.nontrivial_total += 1;
        let fresh = st.nontrivial.insert(out.hash());
        if fresh && st.samples.len() < sample_cap {
            st.samples.push(out.render_json());
        }
    }
}

enum Classified {
    Pass,
    New(String, String),
}

fn classify(id: &str, out: &CaseOut, known: &[KnownFinding], st: Option<&mut WorkerStats>) -> Classified {
    match &out.verdict {
        Verdict::Pass | Verdict::Discard(_) => Classified::Pass,
        Verdict::Fail { key, msg } => {
            if let Some(k) = known.iter().find(|k| k.open && k.key == *key) {
                if let Some(st) = st {
                    if k.property == id {
                        *st.excluded_known.entry(key.clone()).or_insert(0) += 1;
                    } else {
                        *st.excluded_foreign.entry(key.clone()).or_insert(0) += 1;
                    }
                }
                Classified::Pass
            } else {
                Classified::New(key.clone(), msg.clone())
            }
        }
    }
}

pub struct RunResult {
    pub exit: i32,
}

fn write_replay(id: &str, tier: &str, seed: u64, f: &Failure) -> PathBuf {
    let dir = verif_root().join("replays").join(id);
    let _ = std::fs::create_dir_all(&dir);
    let h = mix3(hash_str(&f.key), hash_str(&f.render.to_string()), 7);
    let path = dir.join(format!("{:016x}.json", h));
    let v = json!({
        "property": id,
        "kind": "choices",
        "tier": tier,
        "seed": seed,
        "key": f.key,
        "message": f.msg,
        "streams": f.streams.iter().map(|s| s.clone()).collect::<Vec<_>>(),
        "case": f.render,
    });
    let _ = std::fs::write(&path, serde_json::to_string_pretty(&v).unwrap());
    path
}

pub fn write_text_replay(id: &str, kind: &str, key: &str, msg: &str, text: &str) -> PathBuf {
    let dir = verif_root().join("replays").join(id);
    let _ = std::fs::create_dir_all(&dir);
    let h = mix3(hash_str(key), hash_str(text), 11);
    let path = dir.join(format!("{:016x}.json", h));
    let v = json!({
        "property": id,
        "kind": kind,
        "key": key,
        "message": msg,
        "text": text,
    });
    let _ = std::fs::write(&path, serde_json::to_string_pretty(&v).unwrap());
    path
}

pub struct Watch {
    /// per worker: watchdog time (ms, see `ticks`) at which the current case began, plus 1 (0 = idle)
    slots: Vec<AtomicU64>,
    /// the watchdog's own clock: 250 ms per turn of its loop. It stands still while the whole machine does (a virtual
    /// machine that is paused for a snapshot stalled every case for 144 s once and was reported as a hang), and it runs
    /// slow when the machine is overloaded, which only makes the limit more generous.
    ticks: AtomicU64,
    /// per worker: the case being run (for the hang report)
    current: Vec<std::sync::Mutex<Option<Streams>>>,
    /// violations found so far (a hang elsewhere must not hide them)
    found: std::sync::Mutex<Vec<Failure>>,
    tier: &'static str,
    seed: u64,
    start: Instant,
    done: AtomicBool,
}

const CASE_TIMEOUT_MS: u64 = 60_000;

fn spawn_watchdog(w: Arc<Watch>, id: String) {
    std::thread::spawn(move || loop {
        std::thread::sleep(std::time::Duration::from_millis(250));
        if w.done.load(Ordering::Relaxed) {
            return;
        }
        let now = (w.ticks.fetch_add(1, Ordering::Relaxed) + 1) * 250;
        for (i, s) in w.slots.iter().enumerate() {
            let t = s.load(Ordering::Relaxed);
            if t != 0 && now.saturating_sub(t) > CASE_TIMEOUT_MS {
                let hung = w.current[i].lock().ok().and_then(|g| g.clone());
                if let Some(st) = hung {
                    let f = Failure { streams: st, key: "hang".into(), msg: "case did not finish within the per-case time limit".into(), render: Value::Null };
                    let path = write_replay(&id, w.tier, w.seed, &f);
                    println!("hung case written to {}", path.display());
                }
                let found = w.found.lock().map(|g| g.clone()).unwrap_or_default();
                if let Some(f) = found.first() {
                    let path = write_replay(&id, w.tier, w.seed, f);
                    println!("VIOLATION property={} replay={}", id, path.display());
                    println!("  key: {}", f.key);
                    println!("  {}", f.msg.replace('\n', "\n  "));
                    println!("(another worker hung afterwards; evidence file not rewritten)");
                    std::process::exit(1);
                }
                println!(
                    "INCONCLUSIVE property={id} a single case ran longer than {} s in worker {i} (hang or slowness; not a violation)",
                    CASE_TIMEOUT_MS / 1000
                );
                std::process::exit(2);
            }
        }
    });
}

pub fn run_property(p: &dyn Property, tier: Tier, seed: u64) -> RunResult {
    crate::real::install_panic_hook();
    let start = Instant::now();
    let id = p.id();
    let known = load_known();
    let workers = match tier {
        Tier::Quick => 4,
        Tier::Thorough => 16,
    };
    // VERIF_CASES overrides the fixed case count (used when trying the machinery out)
    let total_cases = std::env::var("VERIF_CASES").ok().and_then(|s| s.parse().ok()).unwrap_or_else(|| match tier {
        // (session 3: the quick tiers take 1-4 s each at the counts the properties name; three times that is still a
        // check one runs on every change, and shapes that occur once in 50 000 cases are met on every seed)
        Tier::Quick => 3 * p.cases(tier),
        Tier::Thorough => p.cases(tier),
    });
    let per_worker = (total_cases / workers as u64).max(1);
    let lens = p.stream_lens();

    let mut failures: Vec<Failure> = vec![];
    let mut all = WorkerStats::default();

    // 1. plain regression checks
    let mut regressions_run = 0;
    for r in p.regressions() {
        regressions_run += 1;
        let res = crate::real::guarded(|| (r.run)());
        let err = match res {
            Ok(Ok(())) => None,
            Ok(Err(m)) => Some(m),
            Err(ps) => Some(format!("{ps}")),
        };
        if let Some(m) = err {
            failures.push(Failure {
                streams: [vec![], vec![], vec![]],
                key: format!("regression:{}", r.name),
                msg: m,
                render: json!({"regression": r.name}),
            });
        }
    }

    // 2. deterministic sweep
    let sweep = p.sweep();
    let sweep_len = sweep.len();
    if failures.is_empty() {
        for s in &sweep {
            let out = p.run(s);
            account(&out, &mut all, 5);
            if let Classified::New(key, msg) = classify(id, &out, &known, Some(&mut all)) {
                failures.push(Failure { streams: s.clone(), key, msg, render: out.render_json() });
                break;
            }
        }
    }

    // 3. random search
    let watch = Arc::new(Watch {
        slots: (0..workers).map(|_| AtomicU64::new(0)).collect(),
        ticks: AtomicU64::new(0),
        current: (0..workers).map(|_| std::sync::Mutex::new(None)).collect(),
        found: std::sync::Mutex::new(vec![]),
        tier: tier.name(),
        seed,
        start,
        done: AtomicBool::new(false),
    });
    spawn_watchdog(watch.clone(), id.to_string());
    let stop = Arc::new(AtomicBool::new(!failures.is_empty()));
    let results: Vec<(WorkerStats, Option<Failure>)> = std::thread::scope(|scope| {
        let mut handles = vec![];
        let only: Option<usize> = std::env::var("VERIF_ONLY_WORKER").ok().and_then(|s| s.parse().ok());
        for w in 0..workers {
            if only.map(|o| o != w).unwrap_or(false) {
                continue;
            }
            let known = &known;
            let watch = watch.clone();
            let stop = stop.clone();
            let h = std::thread::Builder::new()
                .stack_size(256 << 20)
                .spawn_scoped(scope, move || {
                    let stats = RefCell::new(WorkerStats::default());
                    let failed = Cell::new(false);
                    let cfg = Config {
                        cases: per_worker as u32,
                        rng_seed: RngSeed::Fixed(seed_for(id, seed, w)),
                        failure_persistence: None,
                        max_shrink_iters: 3000,
                        max_shrink_time: 20_000,
                        max_global_rejects: u32::MAX,
                        max_local_rejects: u32::MAX,
                        ..Config::default()
                    };
                    let mut runner = TestRunner::new(cfg);
                    let strat = (
                        pvec(any::<u32>(), 0..=lens[0]),
                        pvec(any::<u32>(), 0..=lens[1]),
                        pvec(any::<u32>(), 0..=lens[2]),
                    );
                    let res = runner.run(&strat, |(a, b, c)| {
                        if stop.load(Ordering::Relaxed) && !failed.get() {
                            return Ok(());
                        }
                        let s: Streams = [a, b, c];
                        if let Ok(mut g) = watch.current[w].lock() {
                            *g = Some(s.clone());
                        }
                        watch.slots[w].store(watch.ticks.load(Ordering::Relaxed) * 250 + 1, Ordering::Relaxed);
                        let t0 = Instant::now();
                        let out = match std::panic::catch_unwind(std::panic::AssertUnwindSafe(|| p.run(&s))) {
                            Ok(o) => o,
                            Err(_) => {
                                // a bug of the harness itself: never a verdict about /repo
                                let mut o = CaseOut::new();
                                o.discard("harness-panic");
                                o
                            }
                        };
                        watch.slots[w].store(0, Ordering::Relaxed);
                        if t0.elapsed().as_millis() > 3000 {
                            // a slow case is worth looking at: keep it
                            let f = Failure { streams: s.clone(), key: format!("slow-{}ms", t0.elapsed().as_millis()), msg: "slow case".into(), render: out.render_json() };
                            let path = write_replay(id, watch.tier, watch.seed, &f);
                            println!("note: a case took {} ms; written to {}", t0.elapsed().as_millis(), path.display());
                        }
                        if !failed.get() {
                            account(&out, &mut stats.borrow_mut(), 2);
                        }
                        let cls = if failed.get() {
                            classify(id, &out, known, None)
                        } else {
                            classify(id, &out, known, Some(&mut stats.borrow_mut()))
                        };
                        match cls {
                            Classified::Pass => Ok(()),
                            Classified::New(key, msg) => {
                                failed.set(true);
                                stop.store(true, Ordering::Relaxed);
                                Err(TestCaseError::fail(format!("{key}: {msg}")))
                            }
                        }
                    });
                    let failure = match res {
                        Ok(()) => None,
                        Err(TestError::Fail(_, (a, b, c))) => {
                            let s: Streams = [a, b, c];
                            // re-run the minimal case to render it; a failure that depends on
                            // something outside the case (e.g. hash-map order inside the crate)
                            // may need several attempts
                            let mut found = None;
                            let mut last = p.run(&s);
                            for attempt in 0..40 {
                                if let Verdict::Fail { key, msg } = &last.verdict {
                                    let note = if attempt > 0 {
                                        format!("\n(non-deterministic: reproduced on attempt {} of re-running the same case)", attempt + 1)
                                    } else {
                                        String::new()
                                    };
                                    found = Some(Failure {
                                        streams: s.clone(),
                                        key: key.clone(),
                                        msg: format!("{msg}{note}"),
                                        render: last.render_json(),
                                    });
                                    break;
                                }
                                last = p.run(&s);
                            }
                            Some(found.unwrap_or(Failure {
                                streams: s,
                                key: "flaky".into(),
                                msg: "minimal case did not fail again in 40 re-runs".into(),
                                render: last.render_json(),
                            }))
                        }
                        Err(TestError::Abort(r)) => Some(Failure {
                            streams: [vec![], vec![], vec![]],
                            key: "abort".into(),
                            msg: format!("proptest aborted: {r}"),
                            render: Value::Null,
                        }),
                    };
                    if let Some(f) = &failure {
                        if f.key != "abort" && f.key != "flaky" {
                            if let Ok(mut g) = watch.found.lock() {
                                g.push(f.clone());
                            }
                        }
                    }
                    (stats.into_inner(), failure)
                })
                .expect("spawn worker");
            handles.push(h);
        }
        handles.into_iter().map(|h| h.join().expect("worker thread")).collect()
    });
    watch.done.store(true, Ordering::Relaxed);

    for (st, f) in results {
        all.evaluations += st.evaluations;
        all.nontrivial_total += st.nontrivial_total;
        for (k, v) in st.discards {
            *all.discards.entry(k).or_insert(0) += v;
        }
        for (k, v) in st.classes {
            *all.classes.entry(k).or_insert(0) += v;
        }
        for (k, v) in st.excluded_known {
            *all.excluded_known.entry(k).or_insert(0) += v;
        }
        for (k, v) in st.excluded_foreign {
            *all.excluded_foreign.entry(k).or_insert(0) += v;
        }
        all.nontrivial.extend(st.nontrivial);
        for s in st.samples {
            if all.samples.len() < 5 {
                all.samples.push(s);
            }
        }
        if let Some(f) = f {
            failures.push(f);
        }
    }

    // 4. coverage-guided campaigns (thorough tier only)
    let mut fuzz_reports = vec![];
    let mut fuzz_inconclusive = false;
    if tier == Tier::Thorough {
        let secs = std::env::var("VERIF_FUZZ_SECS").ok().and_then(|s| s.parse().ok()).unwrap_or(120u64);
        for t in p.fuzz_targets() {
            let rep = crate::fuzzglue::campaign(id, t, seed, secs);
            println!(
                "fuzz target {t}: {} execs={} seeds={} corpus={} artifacts={} (inconclusive {}, unreproduced {})",
                rep.status, rep.execs, rep.corpus_seeds, rep.corpus_final, rep.artifacts, rep.inconclusive_artifacts, rep.unreproduced_artifacts
            );
            if rep.inconclusive_artifacts > 0 {
                fuzz_inconclusive = true;
            }
            fuzz_reports.push(rep);
        }
    }

    // infrastructure failures are not violations
    let mut exit = 0;
    let mut infra = vec![];
    failures.retain(|f| {
        if f.key == "abort" || f.key == "flaky" {
            infra.push(format!("{}: {}", f.key, f.msg));
            false
        } else {
            true
        }
    });

    let mut replay_paths = vec![];
    // one report per distinct key
    let mut seen = HashSet::new();
    for f in &failures {
        if !seen.insert(f.key.clone()) {
            continue;
        }
        let path = write_replay(id, tier.name(), seed, f);
        println!("VIOLATION property={} replay={}", id, path.display());
        println!("  key: {}", f.key);
        println!("  {}", f.msg.replace('\n', "\n  "));
        replay_paths.push(path.display().to_string());
        exit = 1;
    }
    let mut fuzz_json = vec![];
    for rep in &fuzz_reports {
        for (key, msg, path) in &rep.violations {
            if seen.insert(key.clone()) {
                println!("VIOLATION property={} replay={}", id, path.display());
                println!("  key: {}", key);
                println!("  {}", msg.replace('\n', "\n  "));
                replay_paths.push(path.display().to_string());
                exit = 1;
            }
        }
        fuzz_json.push(json!({
            "target": rep.target, "status": rep.status, "executions": rep.execs, "seconds": rep.secs,
            "seed_corpus": rep.corpus_seeds, "final_corpus": rep.corpus_final, "artifacts": rep.artifacts,
            "inconclusive_artifacts": rep.inconclusive_artifacts, "unreproduced_artifacts": rep.unreproduced_artifacts,
            "violations": rep.violations.len(),
        }));
    }
    for k in known.iter().filter(|k| k.open && k.property == id) {
        println!("KNOWN-FINDING: property={} {} [{}]", id, k.what, k.key);
    }

    let distinct = all.nontrivial.len() as u64;
    let mut missing_classes = vec![];
    for c in p.required_classes() {
        if all.classes.get(c).copied().unwrap_or(0) == 0 {
            missing_classes.push(c);
        }
    }
    if exit == 0 {
        if !infra.is_empty() {
            println!("INCONCLUSIVE property={id} harness problem: {}", infra.join("; "));
            exit = 2;
        } else if all.discards.get("harness-panic").copied().unwrap_or(0) > 0 {
            println!("INCONCLUSIVE property={id} the harness itself panicked on {} case(s) (see stderr); not a violation", all.discards["harness-panic"]);
            exit = 2;
        } else if fuzz_inconclusive {
            println!("INCONCLUSIVE property={id} a fuzz campaign left timeout/oom artifacts (copied to replays/{id}/); not a violation");
            exit = 2;
        } else if distinct < 2 {
            println!("INCONCLUSIVE property={id} fewer than 2 distinct non-trivial cases were produced");
            exit = 2;
        } else if !missing_classes.is_empty() {
            println!(
                "INCONCLUSIVE property={id} generator produced no case of class(es) {:?}",
                missing_classes
            );
            exit = 2;
        }
    }

    let wall = start.elapsed().as_secs_f64();
    // (a run that ends at a violation within its first cases may not have met a non-trivial case yet: the failing cases
    // are the samples then)
    if all.samples.is_empty() {
        for f in failures.iter().take(3) {
            all.samples.push(f.render.clone());
        }
    }
    let ev = json!({
        "property_id": id,
        "tier": tier.name(),
        "seed": seed,
        "level": "exploration",
        "coverage": {
            "evaluations": all.evaluations,
            "distinct_nontrivial": distinct,
            "nontrivial_total": all.nontrivial_total,
            "rule": p.rule(),
            "samples": all.samples,
            "classes": all.classes,
            "discards": all.discards,
            "excluded_known": all.excluded_known,
            "excluded_foreign": all.excluded_foreign,
            "regression_checks": regressions_run,
            "sweep_cases": sweep_len,
            "workers": workers,
            "engine": "proptest 1.11 TestRunner over three choice streams (vec<u32>), RngSeed::Fixed derived from VERIF_SEED",
            "exhaustive": false,
            "fuzz": fuzz_json,
            "replays": replay_paths,
        },
        "assumptions": p.assumptions(),
        "wall_s": wall,
        "violations": if exit == 1 { seen.len() } else { 0 },
    });
    let evdir = verif_root().join("evidence");
    let _ = std::fs::create_dir_all(&evdir);
    let _ = std::fs::write(evdir.join(format!("{id}.json")), serde_json::to_string_pretty(&ev).unwrap());

    println!(
        "{} {} seed={} cases={} nontrivial={} distinct_nontrivial={} discards={} known_excluded={} wall={:.1}s exit={}",
        id,
        tier.name(),
        seed,
        all.evaluations,
        all.nontrivial_total,
        distinct,
        all.discards.values().sum::<u64>(),
        all.excluded_known.values().sum::<u64>() + all.excluded_foreign.values().sum::<u64>(),
        wall,
        exit
    );
    RunResult { exit }
}

/// Replay a stored case once, bypassing proptest.
pub fn replay(p: &dyn Property, path: &Path) -> i32 {
    crate::real::install_panic_hook();
    let text = match std::fs::read_to_string(path) {
        Ok(t) => t,
        Err(e) => {
            eprintln!("cannot read {}: {e}", path.display());
            return 2;
        }
    };
    let v: Value = match serde_json::from_str(&text) {
        Ok(v) => v,
        Err(e) => {
            eprintln!("cannot parse {}: {e}", path.display());
            return 2;
        }
    };
    if let Some(kind) = v.get("kind").and_then(|k| k.as_str()) {
        if kind == "text" || kind == "fuzz-bytes-hex" {
            let text = v["text"].as_str().unwrap_or("");
            let data = if kind == "text" { text.as_bytes().to_vec() } else { crate::fuzzglue::unhex(text) };
            crate::fuzzglue::init();
            return match p.check_raw(kind, &data) {
                Some((key, msg)) => {
                    println!("VIOLATION property={} replay={}", p.id(), path.display());
                    println!("  key: {key}");
                    println!("  {}", msg.replace('\n', "\n  "));
                    1
                }
                None => {
                    println!("replay: property held on this input");
                    0
                }
            };
        }
    }
    let mut streams: Streams = [vec![], vec![], vec![]];
    if let Some(arr) = v.get("streams").and_then(|a| a.as_array()) {
        for (i, s) in arr.iter().enumerate().take(3) {
            streams[i] = s
                .as_array()
                .map(|a| a.iter().map(|x| x.as_u64().unwrap_or(0) as u32).collect())
                .unwrap_or_default();
        }
    }
    let out = p.run(&streams);
    println!("{}", serde_json::to_string_pretty(&out.render_json()).unwrap());
    match &out.verdict {
        Verdict::Pass => {
            println!("replay: property held on this case");
            0
        }
        Verdict::Discard(w) => {
            println!("replay: case discarded ({w})");
            0
        }
        Verdict::Fail { key, msg } => {
            let known = load_known();
            if let Some(k) = known.iter().find(|k| k.open && k.key == *key) {
                println!("KNOWN-FINDING: property={} {} [{}]", k.property, k.what, k.key);
                return 0;
            }
            println!("VIOLATION property={} replay={}", p.id(), path.display());
            println!("  key: {key}");
            println!("  {}", msg.replace('\n', "\n  "));
            1
        }
    }
}
