//! Choice streams: the only source of randomness inside a property (DESIGN 2.4).
//!
//! A case is a small fixed number of `Vec<u32>` streams (program, layout, device/schedule).
//! Decoders draw with `pick(n) = (x*n) >> 32`, which is monotone in `x`, so shrinking a
//! choice towards 0 moves towards the first (simplest) alternative; an exhausted stream
//! yields 0 for ever, so short streams give small cases.

#[derive(Debug)]
pub struct Ch<'a> {
    data: &'a [u32],
    pos: usize,
}

impl<'a> Ch<'a> {
    pub fn new(data: &'a [u32]) -> Self {
        Ch { data, pos: 0 }
    }

    pub fn raw(&mut self) -> u32 {
        let v = self.data.get(self.pos).copied().unwrap_or(0);
        self.pos += 1;
        v
    }

    pub fn exhausted(&self) -> bool {
        self.pos >= self.data.len()
    }

    pub fn used(&self) -> usize {
        self.pos.min(self.data.len())
    }

    /// uniform in 0..n (n >= 1)
    pub fn pick(&mut self, n: u32) -> u32 {
        if n <= 1 {
            // still consume, so that the stream position does not depend on n
            self.raw();
            return 0;
        }
        ((self.raw() as u64 * n as u64) >> 32) as u32
    }

    pub fn upto(&mut self, n: usize) -> usize {
        self.pick(n as u32) as usize
    }

    /// inclusive range lo..=hi
    pub fn range(&mut self, lo: i64, hi: i64) -> i64 {
        debug_assert!(hi >= lo);
        lo + self.pick((hi - lo + 1) as u32) as i64
    }

    /// true with probability num/den; 0 (exhausted) gives false
    pub fn chance(&mut self, num: u32, den: u32) -> bool {
        // highest values are "true", so that shrinking towards 0 turns features off
        self.pick(den) >= den - num
    }

    /// index into a weight table; alternative 0 is the simplest
    pub fn weighted(&mut self, weights: &[u32]) -> usize {
        let total: u32 = weights.iter().sum();
        if total == 0 {
            self.raw();
            return 0;
        }
        let mut x = self.pick(total);
        for (i, w) in weights.iter().enumerate() {
            if x < *w {
                return i;
            }
            x -= *w;
        }
        weights.len() - 1
    }

    pub fn u64(&mut self) -> u64 {
        ((self.raw() as u64) << 32) | self.raw() as u64
    }

    pub fn choose<'b, T>(&mut self, items: &'b [T]) -> &'b T {
        &items[self.upto(items.len())]
    }

    /// Fisher-Yates permutation of 0..n; all-zero choices give the identity
    pub fn permutation(&mut self, n: usize) -> Vec<usize> {
        let mut v: Vec<usize> = (0..n).collect();
        for i in 0..n {
            let j = i + self.upto(n - i);
            v.swap(i, j);
        }
        v
    }
}

/// splitmix64: a pure mixing function (used for scripted device answers and hashes)
pub fn mix(mut z: u64) -> u64 {
    z = z.wrapping_add(0x9E37_79B9_7F4A_7C15);
    z = (z ^ (z >> 30)).wrapping_mul(0xBF58_476D_1CE4_E5B9);
    z = (z ^ (z >> 27)).wrapping_mul(0x94D0_49BB_1331_11EB);
    z ^ (z >> 31)
}

pub fn mix3(a: u64, b: u64, c: u64) -> u64 {
    mix(mix(mix(a) ^ b.wrapping_mul(0xA24B_AED4_963E_E407)) ^ c.wrapping_mul(0x9FB2_1C65_1E98_DF25))
}

pub fn hash_str(s: &str) -> u64 {
    // FNV-1a, then mixed
    let mut h: u64 = 0xcbf2_9ce4_8422_2325;
    for b in s.as_bytes() {
        h ^= *b as u64;
        h = h.wrapping_mul(0x0000_0100_0000_01B3);
    }
    mix(h)
}
