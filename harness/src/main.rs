use dtr_verif::engine::{replay, run_property, Tier};
use dtr_verif::props;

fn usage() -> ! {
    eprintln!("usage: dtr-verif check <ID> [quick|thorough] | check <ID> --replay <file> | list");
    std::process::exit(2)
}

fn main() {
    let args: Vec<String> = std::env::args().skip(1).collect();
    if args.is_empty() {
        usage();
    }
    match args[0].as_str() {
        "list" => {
            for p in props::all() {
                println!("{}", p.id());
            }
        }
        "gen-corpus" => {
            // write the committed seed corpora of the fuzz targets (deterministic)
            use dtr_verif::choice::{mix3, Ch};
            let root = dtr_verif::engine::verif_root().join("harness").join("corpus");
            let streams = |k: u64, len: usize| -> Vec<u32> { (0..len).map(|i| mix3(k, 7, i as u64) as u32).collect() };
            let mut n = 0;
            for k in 0..40u64 {
                let b = dtr_verif::gen::gen_case(&mut Ch::new(&streams(k, 30 + (k as usize * 7) % 200)), &dtr_verif::props::c12::break_cfg());
                let lines = dtr_verif::print::program_lines(&b.prog);
                let r = dtr_verif::print::render(&lines, &mut Ch::new(&streams(k + 1000, if k % 2 == 0 { 0 } else { 120 })), dtr_verif::print::LayoutOpts::ALL);
                std::fs::write(root.join("parse_bytes").join(format!("gen-{k:02}.txt")), r.text).unwrap();
                n += 1;
            }
            // the repository's own test sources
            for f in ["74162.dig", "74181.dig", "74779.dig", "Counter.dig", "adder.dig"] {
                let text = std::fs::read_to_string(format!("/repo/tests/data/{f}")).unwrap();
                std::fs::write(root.join("dig_bytes").join(f), &text).unwrap();
                if let Ok(file) = digital_test_runner::dig::File::parse(&text) {
                    for (i, t) in file.test_cases.iter().enumerate() {
                        std::fs::write(root.join("parse_bytes").join(format!("{f}-{i}.txt")), &t.source).unwrap();
                        n += 1;
                    }
                }
            }
            for k in 0..12u64 {
                let mut out = dtr_verif::engine::CaseOut::new();
                let s: dtr_verif::engine::Streams = [streams(k + 50, 200), streams(k + 70, 40), vec![0, 0]];
                let c = dtr_verif::props::c16::C16;
                use dtr_verif::engine::Property;
                out = c.run(&s);
                if let Some((_, doc)) = out.render.iter().find(|(k, _)| *k == "document") {
                    std::fs::write(root.join("dig_bytes").join(format!("gen-{k:02}.dig")), doc).unwrap();
                }
            }
            for k in 0..24u64 {
                let len = 40 + (k as usize * 37) % 600;
                let bytes: Vec<u8> = (0..len).map(|i| mix3(k, 3, i as u64) as u8).collect();
                std::fs::write(root.join("run_structured").join(format!("seed-{k:02}.bin")), bytes).unwrap();
            }
            println!("wrote corpora ({n} parse seeds)");
        }
        "show-gen" => {
            // show-gen <c19|c12> <replay file>: print the generated program of a stored case without running it
            let text = std::fs::read_to_string(&args[2]).unwrap();
            let v: serde_json::Value = serde_json::from_str(&text).unwrap();
            let st: Vec<Vec<u32>> = v["streams"].as_array().unwrap().iter().map(|a| a.as_array().unwrap().iter().map(|x| x.as_u64().unwrap() as u32).collect()).collect();
            let cfg = match args[1].as_str() {
                "c19" => dtr_verif::props::c19::lines_cfg(),
                _ => dtr_verif::props::c12::break_cfg(),
            };
            let b = dtr_verif::gen::gen_case(&mut dtr_verif::choice::Ch::new(&st[0]), &cfg);
            println!("{}", dtr_verif::print::canonical(&b.prog).text);
            println!("{}", dtr_verif::model::describe_sigs(&b.sigs));
        }
        "show-c17" => {
            let text = std::fs::read_to_string(&args[1]).unwrap();
            let v: serde_json::Value = serde_json::from_str(&text).unwrap();
            let st: Vec<Vec<u32>> = v["streams"].as_array().unwrap().iter().map(|a| a.as_array().unwrap().iter().map(|x| x.as_u64().unwrap() as u32).collect()).collect();
            let b = dtr_verif::gen::gen_case(&mut dtr_verif::choice::Ch::new(&st[0]), &dtr_verif::props::c17::random_cfg());
            println!("{}", dtr_verif::print::canonical(&b.prog).text);
            println!("{}", dtr_verif::model::describe_sigs(&b.sigs));
        }
        "show-c10" => {
            // print the chaos program of a stored case without running it
            let text = std::fs::read_to_string(&args[1]).unwrap();
            let v: serde_json::Value = serde_json::from_str(&text).unwrap();
            let st: Vec<Vec<u32>> = v["streams"].as_array().unwrap().iter().map(|a| a.as_array().unwrap().iter().map(|x| x.as_u64().unwrap() as u32).collect()).collect();
            let mut dch = dtr_verif::choice::Ch::new(&st[2]);
            let mut cfg = dtr_verif::props::c10::chaos_cfg();
            cfg.expr.total = dch.chance(1, 2);
            cfg.expr.signext = dch.chance(1, 3);
            cfg.expr.bad_random_bounds = dch.chance(1, 3);
            cfg.expr.random = dch.chance(2, 3);
            cfg.maybe_unbound_refs = dch.chance(2, 3);
            cfg.counter_rebind = dch.chance(1, 2);
            let b = dtr_verif::gen::gen_case(&mut dtr_verif::choice::Ch::new(&st[0]), &cfg);
            println!("{}", dtr_verif::print::canonical(&b.prog).text);
            println!("{}", dtr_verif::model::describe_sigs(&b.sigs));
        }
        "sample" => {
            // sample <ID> <n> [discard|fail|class:<name>|any]  - print matching generated cases (debug aid)
            let p = props::by_id(args.get(1).map(|s| s.as_str()).unwrap_or("")).expect("property");
            let n: u64 = args.get(2).and_then(|s| s.parse().ok()).unwrap_or(100);
            let what = args.get(3).cloned().unwrap_or_else(|| "any".into());
            dtr_verif::real::install_panic_hook();
            let lens = p.stream_lens();
            let mut shown = 0;
            for k in 0..n {
                let mut st: dtr_verif::engine::Streams = [vec![], vec![], vec![]];
                for (j, l) in lens.iter().enumerate() {
                    let len = (dtr_verif::choice::mix3(k, j as u64, 99) % (*l as u64 + 1)) as usize;
                    st[j] = (0..len).map(|i| dtr_verif::choice::mix3(k, j as u64, i as u64) as u32).collect();
                }
                let out = p.run(&st);
                let m = match what.as_str() {
                    "discard" => matches!(out.verdict, dtr_verif::engine::Verdict::Discard(_)),
                    "fail" => out.is_fail(),
                    "any" => true,
                    w => w.strip_prefix("class:").map(|c| out.classes.iter().any(|x| *x == c)).unwrap_or(false),
                };
                if m {
                    shown += 1;
                    println!("---- case {k}: {:?} classes={:?}", out.verdict, out.classes);
                    for (k, v) in &out.render {
                        println!("[{k}]\n{v}");
                    }
                    if shown >= 5 {
                        break;
                    }
                }
            }
        }
        "check" => {
            let Some(id) = args.get(1) else { usage() };
            let Some(p) = props::by_id(id) else {
                eprintln!("unknown property {id}");
                std::process::exit(2)
            };
            if args.get(2).map(|s| s.as_str()) == Some("--replay") {
                let Some(path) = args.get(3) else { usage() };
                std::process::exit(replay(p.as_ref(), std::path::Path::new(path)));
            }
            let tier = match args.get(2).map(|s| s.as_str()) {
                Some("quick") => Tier::Quick,
                Some("thorough") => Tier::Thorough,
                Some(_) => usage(),
                None => match std::env::var("VERIF_TIER").as_deref() {
                    Ok("thorough") => Tier::Thorough,
                    _ => Tier::Quick,
                },
            };
            let seed = std::env::var("VERIF_SEED").ok().and_then(|s| s.parse::<u64>().ok()).unwrap_or(0);
            let r = run_property(p.as_ref(), tier, seed);
            std::process::exit(r.exit);
        }
        _ => usage(),
    }
}
