use dtr_verif::engine::{replay, run_property, Tier};
use dtr_verif::props;

fn usage() -> ! {
    eprintln!("usage: dtr-verif check <ID> [quick|thorough] | check <ID> --replay <file> | list");
    std::process::exit(2)
}

fn main() {
    let args: Vec<String> = std::env::args().skip(1).collect();
    if args.is_empty() {
        usage();
    }
    match args[0].as_str() {
        "list" => {
            for p in props::all() {
                println!("{}", p.id());
            }
        }
        "check" => {
            let Some(id) = args.get(1) else { usage() };
            let Some(p) = props::by_id(id) else {
                eprintln!("unknown property {id}");
                std::process::exit(2)
            };
            if args.get(2).map(|s| s.as_str()) == Some("--replay") {
                let Some(path) = args.get(3) else { usage() };
                std::process::exit(replay(p.as_ref(), std::path::Path::new(path)));
            }
            let tier = match args.get(2).map(|s| s.as_str()) {
                Some("quick") => Tier::Quick,
                Some("thorough") => Tier::Thorough,
                Some(_) => usage(),
                None => match std::env::var("VERIF_TIER").as_deref() {
                    Ok("thorough") => Tier::Thorough,
                    _ => Tier::Quick,
                },
            };
            let seed = std::env::var("VERIF_SEED").ok().and_then(|s| s.parse::<u64>().ok()).unwrap_or(0);
            let r = run_property(p.as_ref(), tier, seed);
            std::process::exit(r.exit);
        }
        _ => usage(),
    }
}
