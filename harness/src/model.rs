//! Generator-side model of a test program (DESIGN 2.5): AST, signals, values, and the
//! static analysis written from the property statements (not from the crate).

use std::collections::BTreeSet;

#[derive(Clone, Copy, Debug, PartialEq, Eq, Hash)]
pub enum Radix {
    Dec,
    /// (upper-case `X` prefix, upper-case digits)
    Hex(bool, bool),
    /// upper-case `B` prefix
    Bin(bool),
    Oct,
}

#[derive(Clone, Copy, Debug, PartialEq, Eq, Hash)]
pub enum UnOp {
    Neg,
    Not,
    BitNot,
}

#[derive(Clone, Copy, Debug, PartialEq, Eq, Hash)]
pub enum BinOp {
    Mul,
    Div,
    Rem,
    Add,
    Sub,
    Shl,
    Shr,
    And,
    Xor,
    Or,
    Lt,
    Gt,
    Le,
    Ge,
    Eq,
    Ne,
}

pub const ALL_BINOPS: [BinOp; 16] = [
    BinOp::Mul,
    BinOp::Div,
    BinOp::Rem,
    BinOp::Add,
    BinOp::Sub,
    BinOp::Shl,
    BinOp::Shr,
    BinOp::And,
    BinOp::Xor,
    BinOp::Or,
    BinOp::Lt,
    BinOp::Gt,
    BinOp::Le,
    BinOp::Ge,
    BinOp::Eq,
    BinOp::Ne,
];

impl BinOp {
    /// Precedence level as stated in C08, 1 = tightest binary level.
    pub fn level(self) -> u8 {
        match self {
            BinOp::Mul | BinOp::Div | BinOp::Rem => 1,
            BinOp::Add | BinOp::Sub => 2,
            BinOp::Shl | BinOp::Shr => 3,
            BinOp::And => 4,
            BinOp::Xor => 5,
            BinOp::Or => 6,
            BinOp::Lt | BinOp::Gt | BinOp::Le | BinOp::Ge => 7,
            BinOp::Eq | BinOp::Ne => 8,
        }
    }
    pub fn text(self) -> &'static str {
        match self {
            BinOp::Mul => "*",
            BinOp::Div => "/",
            BinOp::Rem => "%",
            BinOp::Add => "+",
            BinOp::Sub => "-",
            BinOp::Shl => "<<",
            BinOp::Shr => ">>",
            BinOp::And => "&",
            BinOp::Xor => "^",
            BinOp::Or => "|",
            BinOp::Lt => "<",
            BinOp::Gt => ">",
            BinOp::Le => "<=",
            BinOp::Ge => ">=",
            BinOp::Eq => "=",
            BinOp::Ne => "!=",
        }
    }
    pub fn commutative(self) -> bool {
        matches!(
            self,
            BinOp::Mul | BinOp::Add | BinOp::And | BinOp::Xor | BinOp::Or | BinOp::Eq | BinOp::Ne
        )
    }
}

impl UnOp {
    pub fn text(self) -> &'static str {
        match self {
            UnOp::Neg => "-",
            UnOp::Not => "!",
            UnOp::BitNot => "~",
        }
    }
}

#[derive(Clone, Debug, PartialEq, Eq, Hash)]
pub enum Expr {
    /// value <= i64::MAX
    Lit(u64, Radix),
    Var(String),
    Un(UnOp, Box<Expr>),
    Bin(BinOp, Box<Expr>, Box<Expr>),
    Ite(Box<Expr>, Box<Expr>, Box<Expr>),
    Random(Box<Expr>),
    SignExt(Box<Expr>, Box<Expr>),
    /// redundant parentheses
    Group(Box<Expr>),
}

impl Expr {
    pub fn lit(v: u64) -> Expr {
        Expr::Lit(v, Radix::Dec)
    }
    pub fn var(s: &str) -> Expr {
        Expr::Var(s.to_string())
    }
    pub fn bin(op: BinOp, a: Expr, b: Expr) -> Expr {
        Expr::Bin(op, Box::new(a), Box::new(b))
    }
    pub fn un(op: UnOp, a: Expr) -> Expr {
        Expr::Un(op, Box::new(a))
    }
    /// an expression denoting the signed constant `v` without a negative literal
    pub fn konst(v: i64) -> Expr {
        if v >= 0 {
            Expr::lit(v as u64)
        } else {
            // ~k = -k-1  =>  k = -(v+1) = !v
            Expr::un(UnOp::BitNot, Expr::lit((!v) as u64))
        }
    }
    pub fn visit<'a>(&'a self, f: &mut dyn FnMut(&'a Expr)) {
        f(self);
        match self {
            Expr::Lit(..) | Expr::Var(_) => {}
            Expr::Un(_, a) | Expr::Random(a) | Expr::Group(a) => a.visit(f),
            Expr::Bin(_, a, b) | Expr::SignExt(a, b) => {
                a.visit(f);
                b.visit(f)
            }
            Expr::Ite(a, b, c) => {
                a.visit(f);
                b.visit(f);
                c.visit(f)
            }
        }
    }
    pub fn uses_random(&self) -> bool {
        let mut r = false;
        self.visit(&mut |e| {
            if matches!(e, Expr::Random(_)) {
                r = true
            }
        });
        r
    }
    pub fn op_count(&self) -> usize {
        let mut n = 0;
        self.visit(&mut |e| {
            if matches!(e, Expr::Un(..) | Expr::Bin(..) | Expr::Ite(..)) {
                n += 1
            }
        });
        n
    }
}

#[derive(Clone, Debug, PartialEq, Eq, Hash)]
pub enum Entry {
    Num(u64, Radix),
    Paren(Expr),
    Bits(u8, Expr),
    /// the bool is "upper case"
    X(bool),
    Z(bool),
    C(bool),
}

impl Entry {
    pub fn width(&self) -> usize {
        match self {
            Entry::Bits(k, _) => *k as usize,
            _ => 1,
        }
    }
}

#[derive(Clone, Debug, PartialEq, Eq, Hash)]
pub enum Stmt {
    Let(String, Expr),
    /// row id (index into the printer's line table), entries
    Row(usize, Vec<Entry>),
    Repeat(Expr, usize, Vec<Entry>),
    Loop(String, Expr, Vec<Stmt>),
    While(Expr, Vec<Stmt>),
    ResetRandom,
    Declare(String, Expr),
}

#[derive(Clone, Debug, PartialEq, Eq, Hash)]
pub struct Program {
    pub header: Vec<String>,
    pub stmts: Vec<Stmt>,
}

impl Program {
    pub fn visit_stmts<'a>(&'a self, f: &mut dyn FnMut(&'a Stmt, usize)) {
        fn go<'a>(b: &'a [Stmt], d: usize, f: &mut dyn FnMut(&'a Stmt, usize)) {
            for s in b {
                f(s, d);
                match s {
                    Stmt::Loop(_, _, inner) | Stmt::While(_, inner) => go(inner, d + 1, f),
                    _ => {}
                }
            }
        }
        go(&self.stmts, 0, f)
    }
    pub fn row_count(&self) -> usize {
        let mut n = 0;
        self.visit_stmts(&mut |s, _| {
            if matches!(s, Stmt::Row(..) | Stmt::Repeat(..)) {
                n += 1
            }
        });
        n
    }
    pub fn max_depth(&self) -> usize {
        let mut m = 0;
        self.visit_stmts(&mut |_, d| m = m.max(d));
        m
    }
    /// declared virtual signals in source order
    pub fn virtuals(&self) -> Vec<(&str, &Expr)> {
        let mut v = vec![];
        self.visit_stmts(&mut |s, _| {
            if let Stmt::Declare(n, e) = s {
                v.push((n.as_str(), e))
            }
        });
        v
    }
    pub fn visit_exprs<'a>(&'a self, f: &mut dyn FnMut(&'a Expr)) {
        self.visit_stmts(&mut |s, _| match s {
            Stmt::Let(_, e) | Stmt::Declare(_, e) | Stmt::While(e, _) | Stmt::Loop(_, e, _) => {
                e.visit(f)
            }
            Stmt::Row(_, es) => {
                for en in es {
                    if let Entry::Paren(e) | Entry::Bits(_, e) = en {
                        e.visit(f)
                    }
                }
            }
            Stmt::Repeat(b, _, es) => {
                b.visit(f);
                for en in es {
                    if let Entry::Paren(e) | Entry::Bits(_, e) = en {
                        e.visit(f)
                    }
                }
            }
            Stmt::ResetRandom => {}
        })
    }
}

// ---------------------------------------------------------------------------------------------
// signals and values

#[derive(Clone, Copy, Debug, PartialEq, Eq, Hash, PartialOrd, Ord)]
pub enum InVal {
    Val(i64),
    Z,
}

#[derive(Clone, Copy, Debug, PartialEq, Eq, Hash, PartialOrd, Ord)]
pub enum OutVal {
    Val(i64),
    Z,
    X,
}

#[derive(Clone, Copy, Debug, PartialEq, Eq, Hash, PartialOrd, Ord)]
pub enum ExpVal {
    Val(i64),
    Z,
    X,
}

impl std::fmt::Display for InVal {
    fn fmt(&self, f: &mut std::fmt::Formatter<'_>) -> std::fmt::Result {
        match self {
            InVal::Val(n) => write!(f, "{n}"),
            InVal::Z => write!(f, "Z"),
        }
    }
}
impl std::fmt::Display for OutVal {
    fn fmt(&self, f: &mut std::fmt::Formatter<'_>) -> std::fmt::Result {
        match self {
            OutVal::Val(n) => write!(f, "{n}"),
            OutVal::Z => write!(f, "Z"),
            OutVal::X => write!(f, "X"),
        }
    }
}
impl std::fmt::Display for ExpVal {
    fn fmt(&self, f: &mut std::fmt::Formatter<'_>) -> std::fmt::Result {
        match self {
            ExpVal::Val(n) => write!(f, "{n}"),
            ExpVal::Z => write!(f, "Z"),
            ExpVal::X => write!(f, "X"),
        }
    }
}

#[derive(Clone, Debug, PartialEq, Eq, Hash)]
pub enum Kind {
    In(InVal),
    Out,
    Bidir(InVal),
}

#[derive(Clone, Debug, PartialEq, Eq, Hash)]
pub struct Sig {
    pub name: String,
    pub bits: usize,
    pub kind: Kind,
}

impl Sig {
    pub fn is_input(&self) -> bool {
        matches!(self.kind, Kind::In(_) | Kind::Bidir(_))
    }
    pub fn is_output(&self) -> bool {
        matches!(self.kind, Kind::Out | Kind::Bidir(_))
    }
    pub fn default(&self) -> Option<InVal> {
        match self.kind {
            Kind::In(d) | Kind::Bidir(d) => Some(d),
            Kind::Out => None,
        }
    }
    /// the header column name that carries this signal's expected value
    pub fn expected_col(&self) -> Option<String> {
        match self.kind {
            Kind::In(_) => None,
            Kind::Out => Some(self.name.clone()),
            Kind::Bidir(_) => Some(format!("{}_out", self.name)),
        }
    }
    pub fn describe(&self) -> String {
        match &self.kind {
            Kind::In(d) => format!("{}:in{}={}", self.name, self.bits, d),
            Kind::Out => format!("{}:out{}", self.name, self.bits),
            Kind::Bidir(d) => format!("{}:bidir{}={}", self.name, self.bits, d),
        }
    }
}

pub fn describe_sigs(sigs: &[Sig]) -> String {
    sigs.iter().map(|s| s.describe()).collect::<Vec<_>>().join(" ")
}

/// `v` reduced modulo 2^bits (two's complement truncation); 64 bits keep the value
pub fn reduce(v: i64, bits: usize) -> i64 {
    if bits >= 64 {
        v
    } else {
        ((v as u64) & ((1u64 << bits) - 1)) as i64
    }
}

// ---------------------------------------------------------------------------------------------
// static analysis, from the statements of C11 / C15 / C01

#[derive(Clone, Debug, Default, PartialEq, Eq)]
pub struct Analysis {
    /// identifiers read by an expression where no variable of that name is in scope,
    /// in order of first occurrence
    pub reads: Vec<String>,
    /// header names of columns that hold `C` in some row
    pub ccols: BTreeSet<String>,
    /// declared virtual signal names in source order
    pub virtuals: Vec<String>,
    /// a row whose entries do not add up to the header width (model programs never have one,
    /// but mutated ones may)
    pub bad_rows: usize,
}

impl Analysis {
    pub fn is_static(&self) -> bool {
        self.reads.is_empty()
    }
}

struct Scopes {
    frames: Vec<Vec<String>>,
}

impl Scopes {
    fn contains(&self, n: &str) -> bool {
        self.frames.iter().any(|f| f.iter().any(|x| x == n))
    }
    fn insert(&mut self, n: &str) {
        let f = self.frames.last_mut().unwrap();
        if !f.iter().any(|x| x == n) {
            f.push(n.to_string())
        }
    }
}

/// Scope rule as stated: one frame per loop/repeat, none for while; `let` visible only after
/// its own right-hand side; the counter visible in the body, not in the bound; `declare`
/// sees no variables.
pub fn analyse(p: &Program) -> Analysis {
    let mut a = Analysis::default();
    let mut sc = Scopes { frames: vec![vec![]] };
    fn reads_of(e: &Expr, sc: &Scopes, a: &mut Analysis) {
        e.visit(&mut |x| {
            if let Expr::Var(n) = x {
                if !sc.contains(n) && !a.reads.iter().any(|r| r == n) {
                    a.reads.push(n.clone())
                }
            }
        })
    }
    fn row(es: &[Entry], header: &[String], sc: &Scopes, a: &mut Analysis) {
        let mut col = 0usize;
        for en in es {
            match en {
                Entry::Paren(e) | Entry::Bits(_, e) => reads_of(e, sc, a),
                Entry::C(_) => {
                    if let Some(h) = header.get(col) {
                        a.ccols.insert(h.clone());
                    }
                }
                _ => {}
            }
            col += en.width();
        }
        if col != header.len() {
            a.bad_rows += 1;
        }
    }
    fn block(b: &[Stmt], header: &[String], sc: &mut Scopes, a: &mut Analysis) {
        for s in b {
            match s {
                Stmt::Let(n, e) => {
                    reads_of(e, sc, a);
                    sc.insert(n);
                }
                Stmt::Row(_, es) => row(es, header, sc, a),
                Stmt::Repeat(bound, _, es) => {
                    reads_of(bound, sc, a);
                    sc.frames.push(vec!["n".to_string()]);
                    row(es, header, sc, a);
                    sc.frames.pop();
                }
                Stmt::Loop(v, bound, inner) => {
                    reads_of(bound, sc, a);
                    sc.frames.push(vec![v.clone()]);
                    block(inner, header, sc, a);
                    sc.frames.pop();
                }
                Stmt::While(c, inner) => {
                    reads_of(c, sc, a);
                    block(inner, header, sc, a);
                }
                Stmt::ResetRandom => {}
                Stmt::Declare(n, e) => {
                    let empty = Scopes { frames: vec![vec![]] };
                    reads_of(e, &empty, a);
                    a.virtuals.push(n.clone());
                }
            }
        }
    }
    block(&p.stmts, &p.header, &mut sc, &mut a);
    a
}

/// The four clauses of C11 evaluated on the model.
pub fn fits(p: &Program, a: &Analysis, sigs: &[Sig]) -> Result<(), String> {
    // names distinct, also from virtual names
    for (i, s) in sigs.iter().enumerate() {
        if sigs[..i].iter().any(|t| t.name == s.name) {
            return Err(format!("duplicate signal {}", s.name));
        }
        if a.virtuals.iter().any(|v| *v == s.name) {
            return Err(format!("signal {} is also virtual", s.name));
        }
    }
    // every header column names an input, output, bidirectional (name or name_out) or virtual
    for h in &p.header {
        let ok = sigs.iter().any(|s| {
            s.name == *h || (matches!(s.kind, Kind::Bidir(_)) && format!("{}_out", s.name) == *h)
        }) || a.virtuals.iter().any(|v| v == h);
        if !ok {
            return Err(format!("header column {h} names nothing"));
        }
    }
    // every C column is an input-capable signal
    for c in &a.ccols {
        if !sigs.iter().any(|s| s.name == *c && s.is_input()) {
            return Err(format!("C column {c} is not input-capable"));
        }
    }
    // every read names an output-capable signal
    for r in &a.reads {
        if !sigs.iter().any(|s| s.name == *r && s.is_output()) {
            return Err(format!("read {r} is not output-capable"));
        }
    }
    Ok(())
}

/// Names bound by a `let` inside a `while` body: in scope for the parser from there on, but
/// unassigned at run time if the body never runs.
pub fn names_let_in_while(p: &Program) -> Vec<String> {
    fn go(b: &[Stmt], in_while: bool, out: &mut Vec<String>) {
        for s in b {
            match s {
                Stmt::Let(n, _) if in_while && !out.contains(n) => out.push(n.clone()),
                Stmt::While(_, inner) => go(inner, true, out),
                Stmt::Loop(_, _, inner) => go(inner, in_while, out),
                _ => {}
            }
        }
    }
    let mut v = vec![];
    go(&p.stmts, false, &mut v);
    v
}
