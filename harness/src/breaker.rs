//! Grammar-breaking edits on token lines (C12, also used by C20). Each edit kind is invalid by
//! an argument about the grammar of DESIGN Appendix A that does not mention the
//! implementation; the argument is written next to each kind.

use crate::choice::Ch;
use crate::print::*;

#[derive(Clone, Copy, Debug, PartialEq, Eq, Hash, PartialOrd, Ord)]
pub enum EditKind {
    /// a block's `end loop` / `end while` line removed: the block (or the one around it) is
    /// unterminated, or terminated by the wrong keyword
    DeleteEndLine,
    /// `end` left alone on its line: `end` must be followed by `loop` / `while`
    DeleteEndKeyword,
    /// `end loop` <-> `end while`: block terminated by the wrong keyword
    SwapEndKeyword,
    /// `end loop` at top level: no block is open
    InsertEndTop,
    /// text cut at a line boundary strictly inside a block: block unterminated
    CutInBlock,
    /// text cut inside a statement, leaving a proper prefix that is not a statement
    CutInStmt,
    /// `;` removed from let / declare / resetRandom
    DeleteSemi,
    /// a `)` removed: parentheses unbalanced
    DeleteRParen,
    /// a `,` of loop / bits / ite / signExt removed
    DeleteComma,
    /// one entry appended to a row: too many entries
    AddEntry,
    /// one single-token entry removed from a row: too few entries
    RemoveEntry,
    /// function renamed to a name that is none of random / ite / signExt
    RenameFunc,
    /// `, 1` added to a call: wrong number of arguments
    AddArg,
    /// last argument of ite / signExt dropped: wrong number of arguments
    DropArg,
    /// a literal replaced by one >= 2^64 (does not fit in 64 bits), in any radix
    HugeLiteral,
    /// bits width replaced by 65..300
    BitsWidth,
    /// bits width changed to another value <= 64: the row has too many / too few entries
    BitsResize,
    /// a header name duplicated
    DupHeader,
    /// a `declare` repeated with the same name
    DupDeclare,
    /// header not followed by a line break (nothing else in the text)
    HeaderOnly,
}

pub const ALL_EDITS: [EditKind; 20] = [
    EditKind::DeleteEndLine,
    EditKind::DeleteEndKeyword,
    EditKind::SwapEndKeyword,
    EditKind::InsertEndTop,
    EditKind::CutInBlock,
    EditKind::CutInStmt,
    EditKind::DeleteSemi,
    EditKind::DeleteRParen,
    EditKind::DeleteComma,
    EditKind::AddEntry,
    EditKind::RemoveEntry,
    EditKind::RenameFunc,
    EditKind::AddArg,
    EditKind::DropArg,
    EditKind::HugeLiteral,
    EditKind::BitsWidth,
    EditKind::BitsResize,
    EditKind::DupHeader,
    EditKind::DupDeclare,
    EditKind::HeaderOnly,
];

impl EditKind {
    pub fn name(self) -> &'static str {
        match self {
            EditKind::DeleteEndLine => "edit:delete-end-line",
            EditKind::DeleteEndKeyword => "edit:delete-end-keyword",
            EditKind::SwapEndKeyword => "edit:swap-end-keyword",
            EditKind::InsertEndTop => "edit:end-at-top-level",
            EditKind::CutInBlock => "edit:cut-in-block",
            EditKind::CutInStmt => "edit:cut-in-statement",
            EditKind::DeleteSemi => "edit:delete-semicolon",
            EditKind::DeleteRParen => "edit:delete-rparen",
            EditKind::DeleteComma => "edit:delete-comma",
            EditKind::AddEntry => "edit:add-entry",
            EditKind::RemoveEntry => "edit:remove-entry",
            EditKind::RenameFunc => "edit:rename-function",
            EditKind::AddArg => "edit:add-argument",
            EditKind::DropArg => "edit:drop-argument",
            EditKind::HugeLiteral => "edit:huge-literal",
            EditKind::BitsWidth => "edit:bits-width",
            EditKind::BitsResize => "edit:bits-resize",
            EditKind::DupHeader => "edit:duplicate-header-name",
            EditKind::DupDeclare => "edit:duplicate-declare",
            EditKind::HeaderOnly => "edit:header-without-line-break",
        }
    }
}

#[derive(Clone, Debug)]
pub struct Broken {
    pub lines: Vec<Line>,
    pub kind: EditKind,
    /// block depth at which the edit landed
    pub depth: usize,
    /// the text must end without a newline for the edit to be what it says (HeaderOnly)
    pub force_no_newline: bool,
    pub site: String,
}

fn is_sym(t: &Tok, s: &str) -> bool {
    t.class == TokClass::Sym && t.text == s
}
fn is_word(t: &Tok, s: &str) -> bool {
    t.class == TokClass::Word && t.text == s
}
fn raw(s: &str) -> Tok {
    Tok { text: s.to_string(), class: TokClass::Word }
}

/// index of the `)` matching the `(` at `open`
fn matching(toks: &[Tok], open: usize) -> Option<usize> {
    let mut d = 0i32;
    for (i, t) in toks.iter().enumerate().skip(open) {
        if is_sym(t, "(") {
            d += 1;
        } else if is_sym(t, ")") {
            d -= 1;
            if d == 0 {
                return Some(i);
            }
        }
    }
    None
}

/// Width (number of header columns) covered by the row entries in `toks`, by the grammar:
/// NUMBER / X / Z / C = 1, `( expr )` = 1, `bits ( k , expr )` = k. None if the tokens are not
/// a sequence of complete entries.
pub fn entries_width(toks: &[Tok]) -> Option<usize> {
    let mut i = 0;
    let mut w = 0usize;
    while i < toks.len() {
        let t = &toks[i];
        if is_sym(t, "(") {
            let m = matching(toks, i)?;
            if m == i + 1 {
                return None;
            }
            w += 1;
            i = m + 1;
        } else if is_word(t, "bits") {
            if !toks.get(i + 1).map(|t| is_sym(t, "(")).unwrap_or(false) {
                return None;
            }
            let m = matching(toks, i + 1)?;
            let k = match toks.get(i + 2).map(|t| &t.class) {
                Some(TokClass::Num(v, _)) => *v as usize,
                _ => return None,
            };
            if !toks.get(i + 3).map(|t| is_sym(t, ",")).unwrap_or(false) || m <= i + 4 {
                return None;
            }
            w += k;
            i = m + 1;
        } else if matches!(t.class, TokClass::Num(..))
            || (t.class == TokClass::Word && matches!(t.text.as_str(), "X" | "x" | "Z" | "z" | "C" | "c"))
        {
            w += 1;
            i += 1;
        } else {
            return None;
        }
    }
    Some(w)
}

/// start index of the entries of a Row / Repeat line
fn entries_start(line: &Line) -> usize {
    if line.kind == LineKind::Repeat {
        matching(&line.toks, 1).map(|m| m + 1).unwrap_or(line.toks.len())
    } else {
        0
    }
}

#[derive(Clone, Debug)]
struct Site {
    kind: EditKind,
    line: usize,
    tok: usize,
}

fn sites(lines: &[Line]) -> Vec<Site> {
    let mut v = vec![];
    let ncols = lines[0].toks.len();
    let mut declares = 0;
    for (li, line) in lines.iter().enumerate() {
        match line.kind {
            LineKind::Header => {
                v.push(Site { kind: EditKind::DupHeader, line: li, tok: 0 });
                v.push(Site { kind: EditKind::HeaderOnly, line: li, tok: 0 });
                continue;
            }
            LineKind::EndLoop | LineKind::EndWhile => {
                v.push(Site { kind: EditKind::DeleteEndLine, line: li, tok: 0 });
                v.push(Site { kind: EditKind::DeleteEndKeyword, line: li, tok: 0 });
                v.push(Site { kind: EditKind::SwapEndKeyword, line: li, tok: 0 });
            }
            LineKind::Declare => {
                declares += 1;
                v.push(Site { kind: EditKind::DupDeclare, line: li, tok: 0 });
            }
            _ => {}
        }
        if line.depth == 0 && !matches!(line.kind, LineKind::EndLoop | LineKind::EndWhile) {
            v.push(Site { kind: EditKind::InsertEndTop, line: li, tok: 0 });
        }
        // a cut at the line boundary before this line is strictly inside a block iff this line
        // is in a block or closes one
        if line.depth > 0 || matches!(line.kind, LineKind::EndLoop | LineKind::EndWhile) {
            v.push(Site { kind: EditKind::CutInBlock, line: li, tok: 0 });
        }
        // cuts inside the statement
        for t in 1..line.toks.len() {
            let ok = match line.kind {
                LineKind::Row | LineKind::Repeat => {
                    let st = entries_start(line);
                    if t < st || (line.kind == LineKind::Repeat && t == st && st < line.toks.len()) {
                        // inside `repeat ( e )`, or the head complete but no entry (ncols >= 1)
                        true
                    } else {
                        match entries_width(&line.toks[st..t]) {
                            None => true,
                            Some(w) => w != ncols,
                        }
                    }
                }
                // any proper prefix lacks the closing `;` / `)` / keyword
                LineKind::Let | LineKind::Declare | LineKind::ResetRandom => true,
                LineKind::LoopHead | LineKind::WhileHead => true,
                LineKind::EndLoop | LineKind::EndWhile => true,
                LineKind::Header => false,
            };
            if ok {
                v.push(Site { kind: EditKind::CutInStmt, line: li, tok: t });
            }
        }
        for (ti, t) in line.toks.iter().enumerate() {
            if is_sym(t, ";") {
                v.push(Site { kind: EditKind::DeleteSemi, line: li, tok: ti });
            }
            if is_sym(t, ")") {
                v.push(Site { kind: EditKind::DeleteRParen, line: li, tok: ti });
            }
            if is_sym(t, ",") {
                v.push(Site { kind: EditKind::DeleteComma, line: li, tok: ti });
            }
            if t.class == TokClass::Word
                && matches!(t.text.as_str(), "ite" | "random" | "signExt")
                && line.toks.get(ti + 1).map(|n| is_sym(n, "(")).unwrap_or(false)
            {
                v.push(Site { kind: EditKind::RenameFunc, line: li, tok: ti });
                v.push(Site { kind: EditKind::AddArg, line: li, tok: ti });
                if t.text != "random" {
                    v.push(Site { kind: EditKind::DropArg, line: li, tok: ti });
                }
            }
            if let TokClass::Num(..) = t.class {
                let is_bits_width = ti >= 2 && is_word(&line.toks[ti - 2], "bits") && is_sym(&line.toks[ti - 1], "(");
                if is_bits_width {
                    v.push(Site { kind: EditKind::BitsWidth, line: li, tok: ti });
                    v.push(Site { kind: EditKind::BitsResize, line: li, tok: ti });
                } else {
                    v.push(Site { kind: EditKind::HugeLiteral, line: li, tok: ti });
                }
            }
        }
        if matches!(line.kind, LineKind::Row | LineKind::Repeat) {
            v.push(Site { kind: EditKind::AddEntry, line: li, tok: 0 });
            let st = entries_start(line);
            // removable single-token entries: first or last
            if let Some(last) = line.toks.last() {
                let single = |t: &Tok, prev: Option<&Tok>| {
                    (matches!(t.class, TokClass::Num(..))
                        || (t.class == TokClass::Word && matches!(t.text.as_str(), "X" | "x" | "Z" | "z" | "C" | "c")))
                        && !prev.map(|p| is_sym(p, "(") || is_sym(p, ",")).unwrap_or(false)
                };
                let n = line.toks.len();
                if n > st && single(last, if n >= 2 { Some(&line.toks[n - 2]) } else { None }) {
                    // make sure it is a depth-0 token: the entries before it are complete
                    if entries_width(&line.toks[st..n - 1]).is_some() {
                        v.push(Site { kind: EditKind::RemoveEntry, line: li, tok: n - 1 });
                    }
                }
            }
        }
    }
    let _ = declares;
    v
}

const HUGE: [&str; 11] = [
    // (the smallest ones: 2^63, 2^63 + 1, 2^64 - 1 in every radix)
    "9223372036854775808",
    "9223372036854775809",
    "18446744073709551615",
    "0x8000000000000000",
    "01000000000000000000000",
    "18446744073709551616",
    "0x10000000000000000",
    "0B10000000000000000000000000000000000000000000000000000000000000000",
    "02000000000000000000000",
    "99999999999999999999999999",
    "0XFFFFFFFFFFFFFFFFFF",
];

/// Apply one grammar-breaking edit, chosen by kind first so that every kind is exercised.
pub fn break_lines(lines: &[Line], ch: &mut Ch) -> Option<Broken> {
    let all = sites(lines);
    let kinds: Vec<EditKind> = ALL_EDITS.iter().copied().filter(|k| all.iter().any(|s| s.kind == *k)).collect();
    if kinds.is_empty() {
        return None;
    }
    let kind = kinds[ch.upto(kinds.len())];
    let of_kind: Vec<&Site> = all.iter().filter(|s| s.kind == kind).collect();
    let site = of_kind[ch.upto(of_kind.len())].clone();
    let mut out: Vec<Line> = lines.to_vec();
    let li = site.line;
    let ti = site.tok;
    let depth = lines[li].depth;
    let mut force_no_newline = false;
    match kind {
        EditKind::DeleteEndLine => {
            out.remove(li);
        }
        EditKind::DeleteEndKeyword => {
            out[li].toks.truncate(1);
        }
        EditKind::SwapEndKeyword => {
            let other = if out[li].kind == LineKind::EndLoop { "while" } else { "loop" };
            out[li].toks[1] = raw(other);
        }
        EditKind::InsertEndTop => {
            let kw = if ch.chance(1, 2) { "loop" } else { "while" };
            // before this top-level statement, or after the last line (all blocks are closed there)
            let at = if ch.chance(1, 4) { out.len() } else { li };
            out.insert(
                at.max(1),
                Line { toks: vec![raw("end"), raw(kw)], kind: LineKind::EndLoop, row: None, depth: 0 },
            );
        }
        EditKind::CutInBlock => {
            out.truncate(li);
        }
        EditKind::CutInStmt => {
            out.truncate(li + 1);
            out[li].toks.truncate(ti);
        }
        EditKind::DeleteSemi | EditKind::DeleteRParen | EditKind::DeleteComma => {
            out[li].toks.remove(ti);
        }
        EditKind::AddEntry => {
            let extra = match ch.upto(6) {
                0 => raw("0"),
                1 => raw("X"),
                2 => raw("C"),
                3 => raw("Z"),
                4 => raw("c"),
                _ => raw("1"),
            };
            out[li].toks.push(extra);
        }
        EditKind::RemoveEntry => {
            out[li].toks.remove(ti);
        }
        EditKind::RenameFunc => {
            let name = ["foo", "rand", "Random", "ITE", "signext", "iff"][ch.upto(6)];
            out[li].toks[ti] = raw(name);
        }
        EditKind::AddArg => {
            let close = matching(&out[li].toks, ti + 1)?;
            out[li].toks.insert(close, raw("1"));
            out[li].toks.insert(close, Tok { text: ",".into(), class: TokClass::Sym });
        }
        EditKind::DropArg => {
            let close = matching(&out[li].toks, ti + 1)?;
            // last top-level comma of this call
            let mut d = 0;
            let mut last_comma = None;
            for k in ti + 1..close {
                let t = &out[li].toks[k];
                if is_sym(t, "(") {
                    d += 1;
                } else if is_sym(t, ")") {
                    d -= 1;
                } else if is_sym(t, ",") && d == 1 {
                    last_comma = Some(k);
                }
            }
            let c = last_comma?;
            out[li].toks.drain(c..close);
        }
        EditKind::HugeLiteral => {
            out[li].toks[ti] = raw(HUGE[ch.upto(HUGE.len())]);
        }
        EditKind::BitsWidth => {
            let w = 65 + ch.upto(236);
            out[li].toks[ti] = raw(&w.to_string());
        }
        EditKind::BitsResize => {
            let TokClass::Num(k, _) = out[li].toks[ti].class else { return None };
            // any other width in 0..=64 changes the number of columns the row covers
            let grow = k < 64 && (k == 0 || ch.chance(2, 3));
            let nk = if grow { k + 1 + ch.upto((64 - k as usize).min(3)) as u64 } else { k - 1 - ch.upto((k as usize).min(2)) as u64 };
            out[li].toks[ti] = Tok { text: nk.to_string(), class: TokClass::Num(nk, crate::model::Radix::Dec) };
        }
        EditKind::DupHeader => {
            let n = out[0].toks.len();
            let src = ch.upto(n);
            let t = out[0].toks[src].clone();
            if n >= 2 && ch.chance(1, 2) {
                // overwrite another column (row widths stay right)
                let mut dst = ch.upto(n);
                if dst == src {
                    dst = (src + 1) % n;
                }
                out[0].toks[dst] = t;
            } else {
                out[0].toks.push(t);
            }
        }
        EditKind::DupDeclare => {
            let l = out[li].clone();
            // the copy goes right after, or at the very end at depth 0
            if ch.chance(1, 2) || lines.last().map(|l| l.depth != 0).unwrap_or(true) {
                out.insert(li + 1, l);
            } else {
                let mut l = l;
                l.depth = 0;
                out.push(l);
            }
        }
        EditKind::HeaderOnly => {
            out.truncate(1);
            force_no_newline = true;
        }
    }
    Some(Broken {
        lines: out,
        kind,
        depth,
        force_no_newline,
        site: format!("line {} token {}", li, ti),
    })
}
