//! Reference interpreter (DESIGN 2.6): a deliberately naive recursive interpreter over the
//! generating AST, written from the sentences of the property statements.

use std::collections::{BTreeMap, VecDeque};

use crate::device::{DevFail, DevSim, DriverSpec};
use crate::model::*;

#[derive(Clone, Debug, PartialEq, Eq)]
pub enum Hazard {
    DivZero,
    Unresolved(String),
    ZxRead(String),
    /// random(n) with n < 2
    RandomBound(i64),
    SignExt,
    /// the draw log had no (more) entries although a draw was due
    DrawLogExhausted,
    /// the draw log disagrees with the program (bound or range); a C17 violation
    DrawMismatch(String),
}

impl Hazard {
    pub fn class(&self) -> &'static str {
        match self {
            Hazard::DivZero => "hazard:divzero",
            Hazard::Unresolved(_) => "hazard:unresolved",
            Hazard::ZxRead(_) => "hazard:zxread",
            Hazard::RandomBound(_) => "hazard:randombound",
            Hazard::SignExt => "hazard:signext",
            Hazard::DrawLogExhausted => "hazard:drawlog",
            Hazard::DrawMismatch(_) => "hazard:drawmismatch",
        }
    }
}

/// An event of the crate's random machinery, as replayed by the RI
#[derive(Clone, Debug, PartialEq, Eq)]
pub enum DrawEv {
    GenDraw,
    Draw { bound: i64, value: i64 },
    Reset,
}

#[derive(Clone, Debug)]
pub struct RiOpts {
    pub row_cap: usize,
    pub step_cap: usize,
    /// mimic "the counter is an ordinary variable that the loop increments" (only used by
    /// profiles that allow rebinding the counter of the innermost loop frame; see C01 Sound)
    pub counter_from_env: bool,
    /// draw log to replay for `random` / `resetRandom`
    pub draws: Option<Vec<DrawEv>>,
    /// the caller keeps iterating after an error item caused by a virtual signal (the row's
    /// driver call was made, the row is consumed; iteration goes on with the next row)
    pub continue_after_virtual_error: bool,
    /// second-opinion mode, see DevSim::call_of_item
    pub call_of_item: Option<Vec<usize>>,
    /// the caller keeps iterating after an error item caused by an expression that cannot be
    /// evaluated: the failing statement is skipped (a `let` binds nothing, a row yields the
    /// error item instead of its rows, a loop whose bound fails is not entered) and the
    /// sequential reading goes on with the next statement. A failing `while` condition ends
    /// the reference run (it would fail again on every call).
    pub continue_after_expression_error: bool,
}

impl Default for RiOpts {
    fn default() -> Self {
        RiOpts { row_cap: 300, step_cap: 200_000, counter_from_env: false, draws: None, continue_after_virtual_error: false, call_of_item: None, continue_after_expression_error: false }
    }
}

#[derive(Clone, Debug, PartialEq, Eq)]
pub struct RiOut {
    pub name: String,
    pub is_virtual: bool,
    pub bits: usize,
    pub expected: ExpVal,
    pub output: OutVal,
    /// the expected value comes from a literal / X / Z entry or from no column at all (not
    /// from an expression the program evaluates)
    pub expected_is_literal: bool,
}

#[derive(Clone, Debug, PartialEq, Eq)]
pub struct RiRow {
    pub row_id: usize,
    /// one entry per input-capable signal, in signal-list order
    pub inputs: Vec<(String, InVal)>,
    pub checked: bool,
    /// checked rows: user output-capable signals in list order, then virtuals in source order
    pub outputs: Vec<RiOut>,
    /// variables in scope when the row's source statement was evaluated
    pub env: BTreeMap<String, i64>,
    /// index of the output-reading call (as seen by the driver) made for this row, if any
    pub read_call: Option<usize>,
    /// position of this item within the expansion of its source row
    pub expansion_index: usize,
    /// loop depth at which the source row sits
    pub depth: usize,
}

#[derive(Clone, Debug, PartialEq, Eq)]
pub enum RiItem {
    Row(RiRow),
    /// an error item is due; `after_call` = the driver call for the row was made first
    Hazard { hazard: Hazard, after_call: bool },
    /// the driver fails in the call made for this item
    DriverFail(DevFail),
}

#[derive(Clone, Debug, PartialEq, Eq)]
pub enum RiEnd {
    Finished,
    RowCap,
    StepCap,
    /// ended at an error item (the caller stops at the first error)
    Error,
}

#[derive(Clone, Debug, Default)]
pub struct RiFacts {
    pub bound_le0: usize,
    pub bound_pos: usize,
    pub max_depth_run: usize,
    pub while_iters: usize,
    pub draws: usize,
    pub resets: usize,
    pub reset_then_draw: bool,
    pub stale_ok_reads: usize,
    pub clock_triples: usize,
    pub x_expansions: usize,
    pub steps: usize,
    pub rows_in_loops: usize,
    pub shadowed_env: bool,
    pub row_after_loop_end: bool,
    pub virtual_evals: usize,
    /// device reads (in expressions) of a value that differs from the previous call's, after >= 2 calls
    pub fresh_reads: usize,
    pub device_reads: usize,
}

#[derive(Clone, Debug)]
pub struct RiTrace {
    pub ctor_inputs: Vec<(String, InVal)>,
    /// construction must fail: a read output is not supplied by the device
    pub ctor_missing: Vec<String>,
    pub ctor_fail: Option<DevFail>,
    pub items: Vec<RiItem>,
    pub end: RiEnd,
    pub facts: RiFacts,
    /// segments of (bound, value) draws: one segment per generator (re)start
    pub draw_segments: Vec<Vec<(i64, i64)>>,
    pub draws_left: usize,
}

#[derive(Clone, Debug, PartialEq, Eq)]
enum Ev {
    Num(i64),
    X,
    Z,
    C,
}

struct Stop;

struct Ri<'a> {
    prog: &'a Program,
    sigs: &'a [Sig],
    virtuals: Vec<(&'a str, &'a Expr)>,
    dev: DevSim<'a>,
    opts: &'a RiOpts,
    frames: Vec<Vec<(String, i64)>>,
    /// outputs of the last output-reading call, by signal name
    outs: BTreeMap<String, OutVal>,
    prev_outs: BTreeMap<String, OutVal>,
    draws: Option<VecDeque<DrawEv>>,
    items: Vec<RiItem>,
    end: RiEnd,
    facts: RiFacts,
    segments: Vec<Vec<(i64, i64)>>,
    depth: usize,
    loops_ended: bool,
}

pub fn wrapping_div(a: i64, b: i64) -> i64 {
    a.wrapping_div(b)
}

pub fn eval_binop(op: BinOp, a: i64, b: i64) -> Result<i64, Hazard> {
    Ok(match op {
        BinOp::Mul => a.wrapping_mul(b),
        BinOp::Div => {
            if b == 0 {
                return Err(Hazard::DivZero);
            }
            a.wrapping_div(b)
        }
        BinOp::Rem => {
            if b == 0 {
                return Err(Hazard::DivZero);
            }
            a.wrapping_rem(b)
        }
        BinOp::Add => a.wrapping_add(b),
        BinOp::Sub => a.wrapping_sub(b),
        BinOp::Shl => ((a as u64) << (b & 63)) as i64,
        BinOp::Shr => a >> (b & 63),
        BinOp::And => a & b,
        BinOp::Xor => a ^ b,
        BinOp::Or => a | b,
        BinOp::Lt => (a < b) as i64,
        BinOp::Gt => (a > b) as i64,
        BinOp::Le => (a <= b) as i64,
        BinOp::Ge => (a >= b) as i64,
        BinOp::Eq => (a == b) as i64,
        BinOp::Ne => (a != b) as i64,
    })
}

pub fn eval_unop(op: UnOp, a: i64) -> i64 {
    match op {
        UnOp::Neg => a.wrapping_neg(),
        UnOp::Not => (a == 0) as i64,
        UnOp::BitNot => !a,
    }
}

/// Name resolution + draw source for expression evaluation
pub trait Resolver {
    fn resolve(&mut self, name: &str) -> Result<i64, Hazard>;
    fn draw(&mut self, bound: i64) -> Result<i64, Hazard>;
}

pub fn eval_expr(e: &Expr, r: &mut dyn Resolver) -> Result<i64, Hazard> {
    match e {
        Expr::Lit(v, _) => Ok(*v as i64),
        Expr::Var(n) => r.resolve(n),
        Expr::Un(op, a) => Ok(eval_unop(*op, eval_expr(a, r)?)),
        Expr::Bin(op, a, b) => {
            let x = eval_expr(a, r)?;
            let y = eval_expr(b, r)?;
            eval_binop(*op, x, y)
        }
        Expr::Ite(c, a, b) => {
            if eval_expr(c, r)? != 0 {
                eval_expr(a, r)
            } else {
                eval_expr(b, r)
            }
        }
        Expr::Random(a) => {
            let n = eval_expr(a, r)?;
            if n < 2 {
                return Err(Hazard::RandomBound(n));
            }
            r.draw(n)
        }
        Expr::SignExt(a, b) => {
            // arguments are not evaluated: "a function that is not implemented" is an error
            // whatever its arguments are
            let _ = (a, b);
            Err(Hazard::SignExt)
        }
        Expr::Group(a) => eval_expr(a, r),
    }
}

/// A resolver over fixed maps (used by C08 / C14 and for virtual signals)
pub struct MapResolver<'a> {
    pub vars: Option<&'a BTreeMap<String, i64>>,
    pub outs: &'a BTreeMap<String, OutVal>,
}

impl Resolver for MapResolver<'_> {
    fn resolve(&mut self, name: &str) -> Result<i64, Hazard> {
        if let Some(v) = self.vars.and_then(|m| m.get(name)) {
            return Ok(*v);
        }
        match self.outs.get(name) {
            Some(OutVal::Val(v)) => Ok(*v),
            Some(_) => Err(Hazard::ZxRead(name.to_string())),
            None => Err(Hazard::Unresolved(name.to_string())),
        }
    }
    fn draw(&mut self, _bound: i64) -> Result<i64, Hazard> {
        Err(Hazard::DrawLogExhausted)
    }
}

struct FullResolver<'r, 'a> {
    ri: &'r mut Ri<'a>,
    /// virtual-signal mode: variables invisible
    no_vars: bool,
}

impl Resolver for FullResolver<'_, '_> {
    fn resolve(&mut self, name: &str) -> Result<i64, Hazard> {
        if !self.no_vars {
            for f in self.ri.frames.iter().rev() {
                if let Some((_, v)) = f.iter().rev().find(|(n, _)| n == name) {
                    return Ok(*v);
                }
            }
        }
        if !self.no_vars {
            self.ri.facts.device_reads += 1;
            if self.ri.dev.reads >= 2 && self.ri.prev_outs.get(name) != self.ri.outs.get(name) {
                self.ri.facts.fresh_reads += 1;
            }
        }
        match self.ri.outs.get(name) {
            Some(OutVal::Val(v)) => Ok(*v),
            Some(_) => Err(Hazard::ZxRead(name.to_string())),
            None => Err(Hazard::Unresolved(name.to_string())),
        }
    }
    fn draw(&mut self, bound: i64) -> Result<i64, Hazard> {
        let ri = &mut *self.ri;
        let Some(q) = ri.draws.as_mut() else {
            return Err(Hazard::DrawLogExhausted);
        };
        match q.pop_front() {
            Some(DrawEv::GenDraw) => {}
            Some(other) => {
                return Err(Hazard::DrawMismatch(format!(
                    "expected one generator draw for random({bound}), log has {other:?}"
                )))
            }
            None => return Err(Hazard::DrawLogExhausted),
        }
        match q.pop_front() {
            Some(DrawEv::Draw { bound: b, value }) => {
                if b != bound {
                    return Err(Hazard::DrawMismatch(format!(
                        "random evaluated with bound {b}, program says {bound}"
                    )));
                }
                if !(0 <= value && value < bound) {
                    return Err(Hazard::DrawMismatch(format!(
                        "random({bound}) returned {value}, outside 0..{bound}"
                    )));
                }
                ri.facts.draws += 1;
                if ri.facts.resets > 0 {
                    ri.facts.reset_then_draw = true;
                }
                ri.segments.last_mut().unwrap().push((bound, value));
                Ok(value)
            }
            Some(other) => Err(Hazard::DrawMismatch(format!(
                "more than one generator event for random({bound}): {other:?}"
            ))),
            None => Err(Hazard::DrawLogExhausted),
        }
    }
}

impl<'a> Ri<'a> {
    fn flat_env(&mut self) -> BTreeMap<String, i64> {
        let mut m = BTreeMap::new();
        let mut shadow = false;
        for f in &self.frames {
            for (n, v) in f {
                if m.insert(n.clone(), *v).is_some() {
                    shadow = true;
                }
            }
        }
        // a rebinding within one frame replaces, so any duplicate key means shadowing
        // (frames never hold the same name twice)
        if shadow {
            self.facts.shadowed_env = true;
        }
        m
    }

    fn set(&mut self, name: &str, v: i64) {
        let f = self.frames.last_mut().unwrap();
        if let Some(e) = f.iter_mut().find(|(n, _)| n == name) {
            e.1 = v;
        } else {
            f.push((name.to_string(), v));
        }
    }

    fn eval(&mut self, e: &Expr) -> Result<i64, Hazard> {
        eval_expr(e, &mut FullResolver { ri: self, no_vars: false })
    }

    fn hazard(&mut self, h: Hazard, after_call: bool) -> Stop {
        self.items.push(RiItem::Hazard { hazard: h, after_call });
        self.end = RiEnd::Error;
        Stop
    }

    /// an expression of a statement could not be evaluated (no driver call was made)
    fn statement_hazard(&mut self, h: Hazard) -> Result<(), Stop> {
        if self.opts.continue_after_expression_error && !matches!(h, Hazard::DrawLogExhausted | Hazard::DrawMismatch(_)) {
            if self.items.len() >= self.opts.row_cap {
                self.end = RiEnd::RowCap;
                return Err(Stop);
            }
            self.items.push(RiItem::Hazard { hazard: h, after_call: false });
            Ok(())
        } else {
            Err(self.hazard(h, false))
        }
    }

    fn step(&mut self) -> Result<(), Stop> {
        self.facts.steps += 1;
        if self.facts.steps > self.opts.step_cap {
            self.end = RiEnd::StepCap;
            return Err(Stop);
        }
        Ok(())
    }

    fn block(&mut self, b: &'a [Stmt]) -> Result<(), Stop> {
        for s in b {
            self.step()?;
            match s {
                Stmt::Let(n, e) => match self.eval(e) {
                    Ok(v) => self.set(n, v),
                    // skipped: binds nothing
                    Err(h) => self.statement_hazard(h)?,
                },
                Stmt::Row(id, es) => self.row(*id, es)?,
                Stmt::Repeat(bound, id, es) => match self.eval(bound) {
                    Ok(n) => self.run_loop("n", n, &mut |ri| ri.row(*id, es))?,
                    Err(h) => self.statement_hazard(h)?,
                },
                Stmt::Loop(v, bound, inner) => match self.eval(bound) {
                    Ok(n) => self.run_loop(v, n, &mut |ri| ri.block(inner))?,
                    Err(h) => self.statement_hazard(h)?,
                },
                Stmt::While(c, inner) => loop {
                    self.step()?;
                    let v = self.eval(c).map_err(|h| self.hazard(h, false))?;
                    if v == 0 {
                        break;
                    }
                    self.facts.while_iters += 1;
                    self.depth += 1;
                    let r = self.block(inner);
                    self.depth -= 1;
                    r?;
                },
                Stmt::ResetRandom => {
                    if let Some(q) = self.draws.as_mut() {
                        match q.pop_front() {
                            Some(DrawEv::Reset) => {}
                            Some(other) => {
                                let h = Hazard::DrawMismatch(format!(
                                    "resetRandom executed, log has {other:?}"
                                ));
                                return Err(self.hazard(h, false));
                            }
                            None => return Err(self.hazard(Hazard::DrawLogExhausted, false)),
                        }
                    }
                    self.facts.resets += 1;
                    self.segments.push(vec![]);
                }
                Stmt::Declare(..) => {}
            }
        }
        Ok(())
    }

    fn run_loop(
        &mut self,
        var: &str,
        n: i64,
        body: &mut dyn FnMut(&mut Ri<'a>) -> Result<(), Stop>,
    ) -> Result<(), Stop> {
        if n <= 0 {
            self.facts.bound_le0 += 1;
            return Ok(());
        }
        self.facts.bound_pos += 1;
        self.frames.push(vec![]);
        self.depth += 1;
        self.facts.max_depth_run = self.facts.max_depth_run.max(self.depth);
        let mut r = Ok(());
        if self.opts.counter_from_env {
            self.set(var, 0);
            loop {
                r = body(self);
                if r.is_err() {
                    break;
                }
                if self.step().is_err() {
                    r = Err(Stop);
                    break;
                }
                let cur = {
                    let mut res = FullResolver { ri: self, no_vars: false };
                    res.resolve(var).unwrap_or(0)
                };
                let next = cur.saturating_add(1);
                if next < n {
                    self.set(var, next);
                } else {
                    break;
                }
            }
        } else {
            let mut k = 0i64;
            while k < n {
                self.set(var, k);
                r = body(self);
                if r.is_err() {
                    break;
                }
                if self.step().is_err() {
                    r = Err(Stop);
                    break;
                }
                k += 1;
            }
        }
        self.depth -= 1;
        self.frames.pop();
        self.loops_ended = true;
        r
    }

    fn input_vector(&self, evs: &[Ev]) -> Vec<(String, InVal)> {
        self.sigs
            .iter()
            .filter(|s| s.is_input())
            .map(|s| {
                let v = match self.prog.header.iter().position(|h| *h == s.name) {
                    Some(col) => match &evs[col] {
                        Ev::Num(n) => InVal::Val(reduce(*n, s.bits)),
                        Ev::Z => InVal::Z,
                        // X / C never reach here: they are expanded first
                        Ev::X | Ev::C => InVal::Z,
                    },
                    None => s.default().unwrap(),
                };
                (s.name.clone(), v)
            })
            .collect()
    }

    fn expected_of(&self, evs: &[Ev], col_name: &str, bits: usize) -> ExpVal {
        match self.prog.header.iter().position(|h| h == col_name) {
            Some(col) => match &evs[col] {
                Ev::Num(n) => ExpVal::Val(reduce(*n, bits)),
                Ev::Z => ExpVal::Z,
                Ev::X | Ev::C => ExpVal::X,
            },
            None => ExpVal::X,
        }
    }

    fn row(&mut self, id: usize, es: &'a [Entry]) -> Result<(), Stop> {
        // evaluate left to right at the moment the row is reached
        let mut evs: Vec<Ev> = vec![];
        let mut computed: Vec<bool> = vec![];
        for en in es {
            match en {
                Entry::Num(v, _) => evs.push(Ev::Num(*v as i64)),
                Entry::Paren(e) => {
                    let v = match self.eval(e) {
                        Ok(v) => v,
                        Err(h) => {
                            // the row yields the error item instead of its rows
                            self.statement_hazard(h)?;
                            return Ok(());
                        }
                    };
                    computed.resize(evs.len(), false);
                    computed.push(true);
                    evs.push(Ev::Num(v));
                }
                Entry::Bits(k, e) => {
                    let v = match self.eval(e) {
                        Ok(v) => v,
                        Err(h) => {
                            self.statement_hazard(h)?;
                            return Ok(());
                        }
                    };
                    computed.resize(evs.len(), false);
                    for j in (0..*k).rev() {
                        computed.push(true);
                        evs.push(Ev::Num((v >> j) & 1));
                    }
                }
                Entry::X(_) => evs.push(Ev::X),
                Entry::Z(_) => evs.push(Ev::Z),
                Entry::C(_) => evs.push(Ev::C),
            }
        }
        computed.resize(evs.len(), false);
        let is_literal = |col_name: &str| -> bool {
            self.prog.header.iter().position(|h| h == col_name).map(|c| !computed[c]).unwrap_or(true)
        };
        let literal_cols: Vec<(String, bool)> = self.prog.header.iter().map(|h| (h.clone(), is_literal(h))).collect();
        let lit = |name: &str| literal_cols.iter().find(|(h, _)| h == name).map(|(_, l)| *l).unwrap_or(true);
        let env = self.flat_env();
        if self.depth > 0 {
            self.facts.rows_in_loops += 1;
        }
        if self.loops_ended {
            self.facts.row_after_loop_end = true;
        }
        let input_bound = |col: usize| -> bool {
            self.sigs.iter().any(|s| s.is_input() && s.name == self.prog.header[col])
        };
        let xs: Vec<usize> =
            (0..evs.len()).filter(|c| evs[*c] == Ev::X && input_bound(*c)).collect();
        let cs: Vec<usize> =
            (0..evs.len()).filter(|c| evs[*c] == Ev::C && input_bound(*c)).collect();
        if !xs.is_empty() {
            self.facts.x_expansions += 1;
        }
        let mut expansion_index = 0usize;
        // (with 64 and more don't-cares the row cap ends the enumeration long before the count
        // could matter)
        for a in 0..(if xs.len() >= 64 { u64::MAX } else { 1u64 << xs.len() }) {
            let mut base = evs.clone();
            for (j, col) in xs.iter().enumerate() {
                base[*col] = Ev::Num(if j >= 64 { 0 } else { ((a >> j) & 1) as i64 });
            }
            let phases: &[(i64, bool)] =
                if cs.is_empty() { &[(0, true)] } else { &[(0, false), (1, false), (0, true)] };
            if !cs.is_empty() {
                self.facts.clock_triples += 1;
            }
            for (clk, checked) in phases {
                if self.items.len() >= self.opts.row_cap {
                    self.end = RiEnd::RowCap;
                    return Err(Stop);
                }
                let mut cur = base.clone();
                for col in &cs {
                    cur[*col] = Ev::Num(*clk);
                }
                let inputs = self.input_vector(&cur);
                let mut row = RiRow {
                    row_id: id,
                    inputs,
                    checked: *checked,
                    outputs: vec![],
                    env: env.clone(),
                    read_call: None,
                    expansion_index,
                    depth: self.depth,
                };
                expansion_index += 1;
                self.dev.current_item = self.items.len();
                if *checked {
                    match self.dev.read() {
                        Err(f) => {
                            self.items.push(RiItem::DriverFail(f));
                            self.end = RiEnd::Error;
                            return Err(Stop);
                        }
                        Ok((c, answer)) => {
                            row.read_call = Some(c);
                            self.prev_outs = std::mem::take(&mut self.outs);
                            self.outs = answer
                                .iter()
                                .map(|(s, v)| (self.sigs[*s].name.clone(), *v))
                                .collect();
                            for s in self.sigs.iter().filter(|s| s.is_output()) {
                                let expected =
                                    self.expected_of(&cur, &s.expected_col().unwrap(), s.bits);
                                let output = self.outs.get(&s.name).copied().unwrap_or(OutVal::X);
                                row.outputs.push(RiOut {
                                    name: s.name.clone(),
                                    is_virtual: false,
                                    bits: s.bits,
                                    expected,
                                    output,
                                    expected_is_literal: lit(&s.expected_col().unwrap()),
                                });
                            }
                            let virtuals = self.virtuals.clone();
                            let mut virt_err = None;
                            for (name, expr) in virtuals {
                                let expected = self.expected_of(&cur, name, 64);
                                self.facts.virtual_evals += 1;
                                let v = eval_expr(expr, &mut FullResolver { ri: self, no_vars: true });
                                match v {
                                    Ok(v) => row.outputs.push(RiOut {
                                        name: name.to_string(),
                                        is_virtual: true,
                                        bits: 64,
                                        expected,
                                        output: OutVal::Val(v),
                                        expected_is_literal: lit(name),
                                    }),
                                    Err(h) => {
                                        if self.opts.continue_after_virtual_error {
                                            virt_err = Some(h);
                                            break;
                                        }
                                        return Err(self.hazard(h, true));
                                    }
                                }
                            }
                            if let Some(h) = virt_err {
                                self.items.push(RiItem::Hazard { hazard: h, after_call: true });
                                continue;
                            }
                        }
                    }
                } else if let Err(f) = self.dev.write() {
                    self.items.push(RiItem::DriverFail(f));
                    self.end = RiEnd::Error;
                    return Err(Stop);
                }
                self.items.push(RiItem::Row(row));
            }
        }
        Ok(())
    }
}

/// Run the reference interpreter.
pub fn run(prog: &Program, sigs: &[Sig], spec: &DriverSpec, opts: &RiOpts) -> RiTrace {
    let analysis = analyse(prog);
    let mut ri = Ri {
        prog,
        sigs,
        virtuals: prog.virtuals(),
        dev: DevSim { call_of_item: opts.call_of_item.clone(), ..DevSim::new(spec) },
        opts,
        frames: vec![vec![]],
        outs: BTreeMap::new(),
        prev_outs: BTreeMap::new(),
        draws: opts.draws.clone().map(VecDeque::from),
        items: vec![],
        end: RiEnd::Finished,
        facts: RiFacts::default(),
        segments: vec![vec![]],
        depth: 0,
        loops_ended: false,
    };
    let ctor_inputs: Vec<(String, InVal)> = sigs
        .iter()
        .filter(|s| s.is_input())
        .map(|s| (s.name.clone(), s.default().unwrap()))
        .collect();
    let mut trace = RiTrace {
        ctor_inputs,
        ctor_missing: vec![],
        ctor_fail: None,
        items: vec![],
        end: RiEnd::Finished,
        facts: RiFacts::default(),
        draw_segments: vec![],
        draws_left: 0,
    };
    match ri.dev.read() {
        Err(f) => {
            trace.ctor_fail = Some(f);
            trace.end = RiEnd::Error;
            return trace;
        }
        Ok((_, answer)) => {
            ri.outs = answer.iter().map(|(s, v)| (sigs[*s].name.clone(), *v)).collect();
        }
    }
    for r in &analysis.reads {
        let supplied = sigs
            .iter()
            .position(|s| s.name == *r && s.is_output())
            .map(|i| spec.layout.contains(&i))
            .unwrap_or(false);
        if !supplied {
            trace.ctor_missing.push(r.clone());
        }
    }
    if !trace.ctor_missing.is_empty() {
        trace.end = RiEnd::Error;
        return trace;
    }
    let _ = ri.block(&prog.stmts);
    trace.items = std::mem::take(&mut ri.items);
    trace.end = ri.end.clone();
    trace.facts = ri.facts.clone();
    trace.draw_segments = std::mem::take(&mut ri.segments);
    trace.draws_left = ri.draws.as_ref().map(|q| q.len()).unwrap_or(0);
    trace
}
