//! The scripted device: a pure function of (seed, index of output-reading call, signal),
//! shared by the reference interpreter and by the recording `TestDriver` (DESIGN 2.6).

use crate::choice::{mix3, Ch};
use crate::model::*;

#[derive(Clone, Copy, Debug, PartialEq, Eq)]
pub enum Palette {
    /// 0..=5
    Small,
    /// 0 / 1
    Bit,
    /// 64-bit boundary numbers and small numbers
    Boundary,
    /// arbitrary 64-bit values (distinct with overwhelming probability), some boundary, some small
    Wide,
    /// 100..=105: small enough for masked loop bounds, yet apart from the small values
    /// variables usually hold
    Hundred,
}

pub const BOUNDARY: [i64; 24] = [
    0,
    1,
    -1,
    2,
    3,
    -2,
    i64::MIN,
    i64::MAX,
    i64::MIN + 1,
    i64::MAX - 1,
    63,
    64,
    65,
    127,
    255,
    256,
    0x7FFF_FFFF,
    0x8000_0000,
    0xFFFF_FFFF,
    0x1_0000_0000,
    -0x8000_0000,
    1 << 62,
    -(1 << 62),
    7,
];

#[derive(Clone, Debug, PartialEq, Eq)]
pub enum Deviation {
    /// drop the entry at position p (mod len)
    Drop(usize),
    /// append an entry for signal index s (an output-capable signal)
    Add(usize),
    /// repeat entry p in place (length grows by one)
    Duplicate(usize),
    /// swap entries p and q
    Swap(usize, usize),
    /// replace entry p by output-capable signal index s (different from the original)
    Substitute(usize, usize),
    /// replace entry p by a signal of the same name but a different width
    Rewidth(usize),
    /// the driver swaps two of its own `Signal` objects in place before it answers: the entries
    /// p and q keep their addresses and their values but name each other's signal (undone
    /// before the next call)
    SwapInPlace(usize, usize),
    /// (with `foreign`) the trailing entry for the unknown signal is replaced by one for the
    /// output-capable signal s of the test
    ForeignReplaced(usize),
    /// an entry for a signal the test does not know is appended to the answer (the first answer had none)
    AddForeign,
}

#[derive(Clone, Debug, PartialEq, Eq)]
pub struct DriverSpec {
    pub seed: u64,
    pub palette: Palette,
    /// probability (per 256) that an answer is Z or X
    pub zx: u32,
    /// indices into the signal list (output-capable signals) the device supplies, in order
    pub layout: Vec<usize>,
    /// does the driver type override `write_input`?
    pub override_write: bool,
    /// fail at this call (counted over all calls the driver sees, constructor = 0)
    pub fail_at: Option<usize>,
    /// deviate from the layout at this call (counted over all calls the driver sees)
    pub deviate_at: Option<(usize, Deviation)>,
    /// a later call at which the same deviation happens again
    pub deviate_again: Option<usize>,
    /// the device answers the same on every call
    pub constant: bool,
    /// every answer ends with an entry for a signal the test does not know (a debug pin, say)
    pub foreign: bool,
}

impl DriverSpec {
    pub fn honest(sigs: &[Sig], seed: u64, palette: Palette) -> Self {
        DriverSpec {
            seed,
            palette,
            zx: 0,
            layout: (0..sigs.len()).filter(|i| sigs[*i].is_output()).collect(),
            override_write: false,
            fail_at: None,
            deviate_at: None,
            deviate_again: None,
            constant: false,
            foreign: false,
        }
    }

    /// the value the device returns for signal `sig` in call number `call`, counted over ALL
    /// calls the driver sees (constructor = 0, write-only calls included), so that the answers
    /// do not depend on which of the two driver methods the crate chooses
    pub fn answer(&self, call: usize, sig: usize) -> OutVal {
        let call = if self.constant { 0 } else { call };
        let h = mix3(self.seed, call as u64, sig as u64);
        if self.zx > 0 && (h >> 8) % 256 < self.zx as u64 {
            return if (h >> 20) & 1 == 0 { OutVal::Z } else { OutVal::X };
        }
        let r = h >> 24;
        OutVal::Val(match self.palette {
            Palette::Small => (r % 6) as i64,
            Palette::Bit => (r & 1) as i64,
            Palette::Hundred => 100 + (r % 6) as i64,
            Palette::Boundary => {
                if r % 3 == 0 {
                    ((r >> 8) % 6) as i64
                } else {
                    BOUNDARY[((r >> 8) % BOUNDARY.len() as u64) as usize]
                }
            }
            Palette::Wide => match r % 4 {
                0 => ((r >> 8) % 6) as i64,
                1 => BOUNDARY[((r >> 8) % BOUNDARY.len() as u64) as usize],
                _ => mix3(h, 1, 2) as i64,
            },
        })
    }

    pub fn describe(&self, sigs: &[Sig]) -> String {
        format!(
            "seed={:#x} palette={:?} zx={}/256 layout=[{}] override_write={} fail_at={:?} deviate_at={:?} deviate_again={:?}",
            self.seed,
            self.palette,
            self.zx,
            self.layout.iter().map(|i| sigs[*i].name.as_str()).collect::<Vec<_>>().join(","),
            self.override_write,
            self.fail_at,
            self.deviate_at,
            self.deviate_again
        )
    }
}

/// Device simulation used by the reference interpreter: same answers, same call counting
#[derive(Clone, Debug)]
pub struct DevSim<'a> {
    pub spec: &'a DriverSpec,
    /// output-reading calls seen so far
    pub reads: usize,
    /// all calls seen so far
    pub total: usize,
    /// second-opinion mode: the call index the real driver saw for each item (index = item
    /// number); when present, the answer of the call made for item i is computed from that
    /// index instead of the simulation's own call counter, so that a crate that makes more or
    /// fewer calls than the protocol says (C02's business) does not shift the values
    pub call_of_item: Option<Vec<usize>>,
    pub current_item: usize,
}

#[derive(Clone, Copy, Debug, PartialEq, Eq)]
pub struct DevFail {
    pub id: u64,
}

pub fn fail_id(spec: &DriverSpec, total_index: usize) -> u64 {
    mix3(spec.seed, 0xFA11, total_index as u64)
}

impl<'a> DevSim<'a> {
    pub fn new(spec: &'a DriverSpec) -> Self {
        DevSim { spec, reads: 0, total: 0, call_of_item: None, current_item: 0 }
    }
    /// an output-reading call: per supplied signal index its value, in layout order
    pub fn read(&mut self) -> Result<(usize, Vec<(usize, OutVal)>), DevFail> {
        let t = self.total;
        self.total += 1;
        if self.spec.fail_at == Some(t) {
            return Err(DevFail { id: fail_id(self.spec, t) });
        }
        self.reads += 1;
        // the constructor call is call 0 in either mode
        let t = match (&self.call_of_item, t) {
            (Some(m), t) if t > 0 => m.get(self.current_item).copied().unwrap_or(t),
            _ => t,
        };
        Ok((t, self.spec.layout.iter().map(|s| (*s, self.spec.answer(t, *s))).collect()))
    }
    /// a write-only call as the crate issues it
    pub fn write(&mut self) -> Result<(), DevFail> {
        if self.spec.override_write {
            let t = self.total;
            self.total += 1;
            if self.spec.fail_at == Some(t) {
                return Err(DevFail { id: fail_id(self.spec, t) });
            }
            Ok(())
        } else {
            self.read().map(|_| ())
        }
    }
}

/// decode a driver spec from the device choice stream
pub struct SpecCfg {
    pub palette: Palette,
    pub zx: u32,
    /// layout may be a proper subset / permutation of the output-capable signals
    pub free_layout: bool,
    /// signals that must be supplied (indices), e.g. the ones the program reads
    pub must_supply: Vec<usize>,
    pub both_driver_types: bool,
}

pub fn gen_spec(ch: &mut Ch, sigs: &[Sig], cfg: &SpecCfg) -> DriverSpec {
    let seed = ch.u64();
    let outs: Vec<usize> = (0..sigs.len()).filter(|i| sigs[*i].is_output()).collect();
    let mut layout = outs.clone();
    if cfg.free_layout {
        // subset
        if ch.chance(1, 2) {
            layout.retain(|i| cfg.must_supply.contains(i) || !ch.chance(1, 3));
        }
        // permutation
        if ch.chance(1, 2) {
            let p = ch.permutation(layout.len());
            layout = p.iter().map(|i| layout[*i]).collect();
        }
    }
    let override_write = cfg.both_driver_types && ch.chance(1, 2);
    DriverSpec {
        seed,
        palette: cfg.palette,
        zx: cfg.zx,
        layout,
        override_write,
        fail_at: None,
        deviate_at: None,
        deviate_again: None,
        constant: false,
        foreign: false,
    }
}
