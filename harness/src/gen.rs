//! Choice-sequence decoders: signal lists, headers, programs (DESIGN 2.4, 2.5, section 4).
//! Construction, not rejection: cases are well-formed by construction.

use crate::choice::Ch;
use crate::device::BOUNDARY;
use crate::model::*;

/// bound of the `random` calls planted in unselected `ite` branches
pub const LAZY_SENTINEL: u64 = 7919;
/// see ExprCfg::lazy_unassigned
pub const LAZY_UNASSIGNED: &str = "nvz";

pub const IN_NAMES: [&str; 6] = ["A", "B", "CLK", "D", "S", "EN"];
pub const IN_ODD: [&str; 5] = ["A-~R", "é", "#1", "loop", "bits"];
pub const OUT_NAMES: [&str; 5] = ["Q", "R", "Y", "T", "P"];
pub const OUT_ODD: [&str; 4] = ["Q[0]", "end", "BD2_out", "IOx_out"];
/// BU is a prefix of BUS, IO of IO2: exact-name matching of `<name>_out` matters
pub const BIDIR_NAMES: [&str; 5] = ["IO", "BD", "BUS", "BU", "IO2"];
pub const VIRT_NAMES: [&str; 4] = ["V", "W", "VV", "Vx"];
/// variable names: small pool, overlapping with output names, keyword look-alikes, X/Z/C
pub const VAR_NAMES: [&str; 16] = [
    "a", "b", "i", "j", "k", "n", "s", "x1", "Q", "R", "end1", "letx", "looper", "Z", "C", "IO",
];
pub const COUNTER_NAMES: [&str; 7] = ["i", "j", "k", "n", "a", "Q", "bits2"];

#[derive(Clone, Copy, Debug, PartialEq, Eq)]
pub enum Widths {
    All64,
    /// 17..=64: every masked value (<= 16 bits) fits
    Medium,
    Mixed,
    One,
}

#[derive(Clone, Copy, Debug, PartialEq, Eq)]
pub enum Fit {
    /// row expressions are masked so that the value fits every signal the column is bound to
    Mask,
    /// values are whatever they are
    Free,
}

#[derive(Clone, Debug)]
pub struct ExprCfg {
    pub max_depth: u32,
    /// 64-bit boundary literals (else small ones)
    pub boundary: bool,
    /// divisors forced non-zero
    pub total: bool,
    pub random: bool,
    pub signext: bool,
    /// bias towards equal-precedence chains and neighbouring levels
    pub chains: bool,
    pub groups: bool,
    pub radix: bool,
    /// random() bounds below 2 allowed
    pub bad_random_bounds: bool,
    /// hazards (division by zero, signExt, random(0)) placed in unselected ite branches only
    pub lazy_hazards: bool,
    /// among the hazards of unselected ite branches: the variable `nvz`, which the profile binds
    /// only in a `while(0)` body (a variable for the parser, without a value at run time)
    pub lazy_unassigned: bool,
    /// shift counts from the boundary set {-1, 0, 1, 63, 64, 65, 127, MIN}
    pub odd_shifts: bool,
    /// every operand that is itself an operation is parenthesised (precedence plays no role)
    pub full_parens: bool,
}

#[derive(Clone, Debug)]
pub struct Cfg {
    pub n_in: (usize, usize),
    pub n_out: (usize, usize),
    pub n_bidir: (usize, usize),
    pub interleave: bool,
    pub widths: Widths,
    pub odd_names: bool,
    pub wild_defaults: bool,
    pub permute_header: bool,
    pub omit_cols: bool,
    pub max_virtual: usize,
    pub min_virtual: usize,
    /// add a bus of 16..65 one-bit outputs O0.. so that bits(k,e) with k up to 64 fits in a row
    pub bus: bool,
    pub max_depth: usize,
    pub max_block: usize,
    pub w_row: u32,
    pub w_let: u32,
    pub w_loop: u32,
    pub w_repeat: u32,
    pub w_while: u32,
    pub w_reset: u32,
    pub allow_c: bool,
    pub allow_input_x: bool,
    pub max_x: usize,
    /// expressions may read device outputs
    pub reads: bool,
    /// device answers are small (0..=5): a device read may be used directly as a loop bound
    pub small_device: bool,
    pub fit: Fit,
    pub expr: ExprCfg,
    /// allow `let` to rebind the counter of the innermost loop frame
    pub counter_rebind: bool,
    /// reference names that may be unbound on the executed path
    pub maybe_unbound_refs: bool,
    pub bits_entries: bool,
    pub z_entries: bool,
    /// free `while` conditions on device outputs
    pub device_whiles: bool,
    /// input named `<bidir>_out` sharing a column with the bidirectional's expected value
    pub shared_cols: bool,
    /// 61-67 extra one-bit inputs W0.. (headers of 65 and more columns)
    pub wide_inputs: bool,
    /// now and then a row statement repeats the row statement right before it, entry by entry
    /// (or repeats it with one input column that held the literal 0 turned into `C`)
    pub dup_rows: bool,
    /// now and then a row holds X in every input-only column (with `wide_inputs`: 64 and more)
    pub all_x_rows: bool,
    /// virtual signal expressions may use random
    pub virtual_random: bool,
    /// variables and loop counters may be named like signals (Q, R, IO are in the pools)
    pub vars_like_signals: bool,
}

impl Cfg {
    /// the `flow` profile of C01; other profiles start from it
    pub fn flow() -> Cfg {
        Cfg {
            n_in: (1, 3),
            n_out: (1, 3),
            n_bidir: (0, 1),
            interleave: false,
            widths: Widths::Medium,
            odd_names: true,
            wild_defaults: false,
            permute_header: false,
            omit_cols: false,
            max_virtual: 0,
            min_virtual: 0,
            bus: false,
            max_depth: 5,
            max_block: 7,
            w_row: 10,
            w_let: 6,
            w_loop: 4,
            w_repeat: 2,
            w_while: 3,
            w_reset: 1,
            allow_c: false,
            allow_input_x: false,
            max_x: 0,
            reads: true,
            small_device: true,
            fit: Fit::Mask,
            expr: ExprCfg {
                max_depth: 3,
                boundary: false,
                total: true,
                random: false,
                signext: false,
                chains: false,
                groups: true,
                radix: true,
                bad_random_bounds: false,
                lazy_hazards: false,
                lazy_unassigned: false,
                odd_shifts: false,
                full_parens: false,
            },
            counter_rebind: false,
            maybe_unbound_refs: false,
            bits_entries: true,
            z_entries: true,
            device_whiles: true,
            shared_cols: false,
            wide_inputs: false,
            dup_rows: true,
            all_x_rows: false,
            virtual_random: false,
            vars_like_signals: true,
        }
    }
}

#[derive(Clone, Debug, PartialEq, Eq)]
pub enum ColRole {
    InputOnly,
    ExpectedOnly,
    Shared,
}

#[derive(Clone, Debug)]
pub struct Col {
    pub name: String,
    pub role: ColRole,
    /// smallest width of the signals bound to this column
    pub min_bits: usize,
}

#[derive(Clone, Debug)]
pub struct Built {
    pub prog: Program,
    pub sigs: Vec<Sig>,
    pub cols: Vec<Col>,
    pub analysis: Analysis,
}

impl Built {
    /// indices of signals the device must supply so that construction succeeds
    pub fn must_supply(&self) -> Vec<usize> {
        self.analysis
            .reads
            .iter()
            .filter_map(|r| self.sigs.iter().position(|s| s.name == *r && s.is_output()))
            .collect()
    }
}

fn pick_names(ch: &mut Ch, pool: &[&str], n: usize) -> Vec<String> {
    let p = ch.permutation(pool.len());
    p.into_iter().take(n).map(|i| pool[i].to_string()).collect()
}

pub fn gen_width(ch: &mut Ch, w: Widths) -> usize {
    match w {
        Widths::All64 => 64,
        Widths::Medium => *ch.choose(&[32usize, 17, 64, 33, 63, 20, 48]),
        Widths::Mixed => *ch.choose(&[8usize, 1, 2, 7, 16, 31, 32, 33, 62, 63, 64, 4]),
        Widths::One => 1,
    }
}

fn gen_default(ch: &mut Ch, wild: bool) -> InVal {
    if !wild {
        return InVal::Val(ch.range(0, 1));
    }
    match ch.weighted(&[4, 2, 2, 2]) {
        0 => InVal::Val(ch.range(0, 3)),
        1 => InVal::Z,
        2 => InVal::Val(*ch.choose(&BOUNDARY)),
        _ => InVal::Val(ch.u64() as i64),
    }
}

pub fn gen_signals(ch: &mut Ch, cfg: &Cfg) -> Vec<Sig> {
    let n_in = ch.range(cfg.n_in.0 as i64, cfg.n_in.1 as i64) as usize;
    let n_out = ch.range(cfg.n_out.0 as i64, cfg.n_out.1 as i64) as usize;
    let n_bidir = ch.range(cfg.n_bidir.0 as i64, cfg.n_bidir.1 as i64) as usize;
    let mut in_pool: Vec<&str> = IN_NAMES.to_vec();
    let mut out_pool: Vec<&str> = OUT_NAMES.to_vec();
    if cfg.odd_names {
        in_pool.extend(IN_ODD);
        out_pool.extend(OUT_ODD);
    }
    // keep the plain names in front so that small choices give plain names
    let ins = pick_names_front(ch, &in_pool, n_in, IN_NAMES.len());
    let mut outs = pick_names_front(ch, &out_pool, n_out, OUT_NAMES.len());
    // where variables may be named like signals: now and then an output called `n`, like the
    // implicit counter of `repeat`
    if cfg.vars_like_signals && !outs.is_empty() && ch.chance(1, 10) {
        outs[0] = "n".to_string();
    }
    let bds = pick_names(ch, &BIDIR_NAMES, n_bidir);
    let mut sigs = vec![];
    for n in ins {
        sigs.push(Sig {
            name: n,
            bits: gen_width(ch, cfg.widths),
            kind: Kind::In(gen_default(ch, cfg.wild_defaults)),
        });
    }
    for n in outs {
        sigs.push(Sig { name: n, bits: gen_width(ch, cfg.widths), kind: Kind::Out });
    }
    for n in bds {
        sigs.push(Sig {
            name: n,
            bits: gen_width(ch, cfg.widths),
            kind: Kind::Bidir(gen_default(ch, cfg.wild_defaults)),
        });
    }
    if cfg.shared_cols {
        // an input called <bidir>_out: its column is also the bidirectional's expected column
        if let Some(b) = sigs.iter().find(|s| matches!(s.kind, Kind::Bidir(_))).map(|s| s.name.clone()) {
            if ch.chance(1, 2) {
                sigs.push(Sig {
                    name: format!("{b}_out"),
                    bits: gen_width(ch, cfg.widths),
                    kind: Kind::In(gen_default(ch, cfg.wild_defaults)),
                });
            }
        }
    }
    if cfg.wide_inputs {
        let n = 61 + ch.upto(7);
        for k in 0..n {
            sigs.push(Sig { name: format!("W{k}"), bits: 1, kind: Kind::In(InVal::Val(0)) });
        }
    }
    if cfg.bus {
        let n = *ch.choose(&[33usize, 16, 64, 65, 40]);
        for k in 0..n {
            sigs.push(Sig { name: format!("O{k}"), bits: 1, kind: Kind::Out });
        }
    }
    if cfg.interleave {
        let p = ch.permutation(sigs.len());
        sigs = p.into_iter().map(|i| sigs[i].clone()).collect();
    }
    sigs
}

fn pick_names_front(ch: &mut Ch, pool: &[&str], n: usize, plain: usize) -> Vec<String> {
    // each slot: mostly a plain name, sometimes an odd one
    let mut left: Vec<&str> = pool.to_vec();
    let mut out = vec![];
    for _ in 0..n {
        if left.is_empty() {
            break;
        }
        let plain_left = left.iter().filter(|x| pool[..plain].contains(x)).count();
        let idx = if plain_left > 0 && !ch.chance(1, 6) {
            ch.upto(plain_left)
        } else if left.len() > plain_left {
            plain_left + ch.upto(left.len() - plain_left)
        } else {
            ch.upto(left.len())
        };
        out.push(left.remove(idx).to_string());
    }
    out
}

/// header columns for a signal list (+ virtual columns), and their roles
pub fn gen_header(ch: &mut Ch, cfg: &Cfg, sigs: &[Sig], virtuals: &[(String, bool)]) -> Vec<String> {
    let mut names: Vec<String> = vec![];
    for s in sigs {
        match s.kind {
            Kind::In(_) | Kind::Out => names.push(s.name.clone()),
            Kind::Bidir(_) => {
                names.push(s.name.clone());
                names.push(format!("{}_out", s.name));
            }
        }
    }
    for (v, has_col) in virtuals {
        if *has_col {
            names.push(v.clone());
        }
    }
    names.dedup();
    // shared columns appear once
    let mut uniq: Vec<String> = vec![];
    for n in names {
        if !uniq.contains(&n) {
            uniq.push(n);
        }
    }
    let mut names = uniq;
    if cfg.omit_cols && names.len() > 1 {
        let mut kept = vec![];
        for n in &names {
            if !ch.chance(1, 4) {
                kept.push(n.clone());
            }
        }
        if kept.is_empty() {
            kept.push(names[0].clone());
        }
        names = kept;
    }
    if cfg.permute_header {
        let p = ch.permutation(names.len());
        names = p.into_iter().map(|i| names[i].clone()).collect();
    }
    names
}

pub fn col_roles(header: &[String], sigs: &[Sig]) -> Vec<Col> {
    header
        .iter()
        .map(|h| {
            let inp = sigs.iter().find(|s| s.is_input() && s.name == *h);
            let exp = sigs.iter().find(|s| s.expected_col().as_deref() == Some(h.as_str()));
            let role = match (inp.is_some(), exp.is_some()) {
                (true, true) => ColRole::Shared,
                (true, false) => ColRole::InputOnly,
                // virtual columns are expected-only
                _ => ColRole::ExpectedOnly,
            };
            let mut bits = 64;
            if let Some(s) = inp {
                bits = bits.min(s.bits)
            }
            if let Some(s) = exp {
                bits = bits.min(s.bits)
            }
            Col { name: h.clone(), role, min_bits: bits }
        })
        .collect()
}

// ---------------------------------------------------------------------------------------------
// scope tracking while generating

#[derive(Clone, Debug)]
struct SFrame {
    /// (name, value known to be small)
    vars: Vec<(String, bool)>,
    counter: Option<String>,
    /// a `while` body: bindings made here are not definite afterwards
    tentative: bool,
    /// the counter of this loop frame was set to a value near i64::MAX
    counter_maxed: bool,
}

#[derive(Clone, Debug)]
struct Scope {
    frames: Vec<SFrame>,
    /// names bound only on paths that may not execute, with the loop depth they live at
    maybe: Vec<(String, usize)>,
}

impl Scope {
    fn visible(&self) -> Vec<(String, bool)> {
        let mut v: Vec<(String, bool)> = vec![];
        for f in self.frames.iter().rev() {
            for (n, s) in f.vars.iter().rev() {
                if !v.iter().any(|(m, _)| m == n) {
                    v.push((n.clone(), *s));
                }
            }
        }
        v
    }
    fn bind(&mut self, name: &str, small: bool) {
        let f = self.frames.last_mut().unwrap();
        if let Some(e) = f.vars.iter_mut().find(|(n, _)| n == name) {
            e.1 = small;
        } else {
            f.vars.push((name.to_string(), small));
        }
    }
    fn innermost_counter(&self) -> Option<&str> {
        self.frames.iter().rev().find(|f| !f.tentative).and_then(|f| f.counter.as_deref())
    }
    fn real_depth(&self) -> usize {
        self.frames.iter().filter(|f| !f.tentative).count()
    }
    fn pop(&mut self) {
        let f = self.frames.pop().unwrap();
        if !f.tentative {
            // a loop frame ends at parse time as well: everything bound inside is gone
            let d = self.real_depth();
            self.maybe.retain(|(_, depth)| *depth <= d);
            return;
        }
        let d = self.real_depth();
        for (n, small) in f.vars {
            let mut found = false;
            // may have rebound an outer variable of the same real frame: keep it definite,
            // but it is small only if both are
            for g in self.frames.iter_mut().rev() {
                if let Some(e) = g.vars.iter_mut().find(|(m, _)| *m == n) {
                    e.1 = e.1 && small;
                    found = true;
                    break;
                }
                if !g.tentative {
                    break;
                }
            }
            // bound in a while body only: in scope for the parser, maybe unbound at run time
            if !found && !self.maybe.iter().any(|(m, _)| *m == n) {
                self.maybe.push((n, d));
            }
        }
    }
    fn maybe_names(&self) -> Vec<String> {
        self.maybe.iter().map(|(n, _)| n.clone()).collect()
    }
}

// ---------------------------------------------------------------------------------------------
// expressions

pub struct ExprEnv<'a> {
    pub vars: &'a [(String, bool)],
    /// device outputs that may be read
    pub outs: &'a [String],
    pub maybe: &'a [String],
    pub cfg: &'a ExprCfg,
}

fn gen_radix(ch: &mut Ch, on: bool) -> Radix {
    if !on {
        return Radix::Dec;
    }
    match ch.weighted(&[12, 1, 1, 1, 1, 1]) {
        0 => Radix::Dec,
        1 => Radix::Hex(false, false),
        2 => Radix::Hex(true, true),
        3 => Radix::Bin(false),
        4 => Radix::Bin(true),
        _ => Radix::Oct,
    }
}

fn with_radix(e: Expr, r: Radix) -> Expr {
    match e {
        Expr::Lit(v, _) => Expr::Lit(v, r),
        Expr::Un(op, a) => Expr::Un(op, Box::new(with_radix(*a, r))),
        other => other,
    }
}

pub fn gen_lit(ch: &mut Ch, cfg: &ExprCfg) -> Expr {
    let r = gen_radix(ch, cfg.radix);
    if cfg.boundary && ch.chance(1, 2) {
        let v = match ch.weighted(&[6, 2, 2]) {
            0 => *ch.choose(&BOUNDARY),
            1 => ch.u64() as i64,
            _ => {
                let k = ch.range(0, 63);
                let base = 1i64.wrapping_shl(k as u32);
                base.wrapping_add(ch.range(-1, 1))
            }
        };
        with_radix(Expr::konst(v), r)
    } else {
        Expr::Lit(ch.range(0, 9) as u64, r)
    }
}

const CHAIN_GROUPS: [&[BinOp]; 5] = [
    &[BinOp::Mul, BinOp::Div, BinOp::Rem],
    &[BinOp::Add, BinOp::Sub],
    &[BinOp::Shl, BinOp::Shr],
    &[BinOp::Lt, BinOp::Gt, BinOp::Le, BinOp::Ge],
    &[BinOp::Eq, BinOp::Ne],
];

fn gen_leaf(ch: &mut Ch, env: &ExprEnv) -> Expr {
    let nv = env.vars.len() as u32;
    let no = env.outs.len() as u32;
    let nm = env.maybe.len() as u32;
    match ch.weighted(&[4, 3 * nv.min(1), 2 * no.min(1), 3 * nm.min(1)]) {
        0 => gen_lit(ch, env.cfg),
        1 => Expr::Var(env.vars[ch.upto(env.vars.len())].0.clone()),
        2 => Expr::Var(env.outs[ch.upto(env.outs.len())].clone()),
        _ => Expr::Var(env.maybe[ch.upto(env.maybe.len())].clone()),
    }
}

fn nonzero(e: Expr) -> Expr {
    Expr::bin(BinOp::Or, e, Expr::lit(1))
}

pub fn gen_expr(ch: &mut Ch, depth: u32, env: &ExprEnv) -> Expr {
    let e = gen_expr_inner(ch, depth, env);
    if env.cfg.full_parens {
        fully_parenthesise(e)
    } else {
        e
    }
}

/// wrap every operand that is itself an operation in redundant parentheses
pub fn fully_parenthesise(e: Expr) -> Expr {
    fn wrap(e: Expr) -> Expr {
        let e = fully_parenthesise(e);
        match e {
            Expr::Bin(..) | Expr::Un(..) => Expr::Group(Box::new(e)),
            other => other,
        }
    }
    match e {
        Expr::Bin(op, a, b) => Expr::Bin(op, Box::new(wrap(*a)), Box::new(wrap(*b))),
        Expr::Un(op, a) => Expr::Un(op, Box::new(wrap(*a))),
        Expr::Ite(c, a, b) => Expr::Ite(Box::new(fully_parenthesise(*c)), Box::new(fully_parenthesise(*a)), Box::new(fully_parenthesise(*b))),
        Expr::Random(a) => Expr::Random(Box::new(fully_parenthesise(*a))),
        Expr::Group(a) => Expr::Group(Box::new(fully_parenthesise(*a))),
        other => other,
    }
}

fn gen_expr_inner(ch: &mut Ch, depth: u32, env: &ExprEnv) -> Expr {
    let cfg = env.cfg;
    if depth == 0 {
        return gen_leaf(ch, env);
    }
    let w_random = if cfg.random { 2 } else { 0 };
    let w_signext = if cfg.signext { 1 } else { 0 };
    let w_group = if cfg.groups { 1 } else { 0 };
    let w_chain = if cfg.chains { 4 } else { 0 };
    match ch.weighted(&[5, 6, 2, 1, w_group, w_random, w_signext, w_chain]) {
        0 => gen_leaf(ch, env),
        1 => {
            let op = *ch.choose(&ALL_BINOPS);
            let a = gen_expr_inner(ch, depth - 1, env);
            let mut b = gen_expr_inner(ch, depth - 1, env);
            if cfg.total && matches!(op, BinOp::Div | BinOp::Rem) {
                b = nonzero(b);
            }
            if cfg.odd_shifts && matches!(op, BinOp::Shl | BinOp::Shr) && ch.chance(1, 2) {
                b = Expr::konst(*ch.choose(&[-1i64, 0, 1, 63, 64, 65, 127, i64::MIN, 6, 70]));
            }
            Expr::bin(op, a, b)
        }
        2 => {
            let op = *ch.choose(&[UnOp::Neg, UnOp::Not, UnOp::BitNot]);
            Expr::un(op, gen_expr_inner(ch, depth - 1, env))
        }
        3 => {
            if cfg.lazy_hazards && ch.chance(1, 2) {
                let haz = match ch.upto(if cfg.lazy_unassigned { 5 } else { 4 }) {
                    4 => {
                        if ch.chance(1, 2) {
                            Expr::var(LAZY_UNASSIGNED)
                        } else {
                            Expr::bin(BinOp::Add, gen_leaf(ch, env), Expr::un(UnOp::Neg, Expr::var(LAZY_UNASSIGNED)))
                        }
                    }
                    0 => Expr::bin(BinOp::Div, Expr::lit(1), Expr::lit(0)),
                    1 => Expr::bin(BinOp::Rem, gen_leaf(ch, env), Expr::lit(0)),
                    2 => Expr::SignExt(Box::new(Expr::lit(1)), Box::new(Expr::lit(2))),
                    // a valid bound: an eager ite would draw (and nothing else would show it)
                    // LAZY_SENTINEL is used nowhere else as a bound, so a draw with it in the
                    // crate's log proves that an unselected branch was evaluated
                    _ => Expr::Random(Box::new(Expr::lit(if ch.chance(1, 2) { LAZY_SENTINEL } else { 0 }))),
                };
                let live = gen_expr_inner(ch, depth - 1, env);
                return if ch.chance(1, 2) {
                    Expr::Ite(Box::new(Expr::lit(0)), Box::new(haz), Box::new(live))
                } else {
                    let c = Expr::lit(ch.range(1, 9) as u64);
                    Expr::Ite(Box::new(c), Box::new(live), Box::new(haz))
                };
            }
            let c = gen_expr_inner(ch, depth - 1, env);
            let a = gen_expr_inner(ch, depth - 1, env);
            let b = gen_expr_inner(ch, depth - 1, env);
            Expr::Ite(Box::new(c), Box::new(a), Box::new(b))
        }
        4 => Expr::Group(Box::new(gen_expr_inner(ch, depth - 1, env))),
        5 => Expr::Random(Box::new(gen_random_bound(ch, depth - 1, env))),
        6 => {
            let a = gen_leaf(ch, env);
            let b = gen_leaf(ch, env);
            Expr::SignExt(Box::new(a), Box::new(b))
        }
        _ => {
            // a chain of equal-precedence (or neighbouring) operators, built left-assoc
            let g = CHAIN_GROUPS[ch.upto(CHAIN_GROUPS.len())];
            let n = 2 + ch.upto(3);
            let mut e = gen_expr_inner(ch, depth - 1, env);
            for _ in 0..n {
                let op = *ch.choose(g);
                let mut b = gen_expr_inner(ch, depth.saturating_sub(2), env);
                if cfg.total && matches!(op, BinOp::Div | BinOp::Rem) {
                    b = nonzero(b);
                }
                // sometimes attach on the right to force parentheses
                if ch.chance(1, 4) {
                    if cfg.total && matches!(op, BinOp::Div | BinOp::Rem) {
                        e = nonzero(e);
                    }
                    e = Expr::bin(op, b, e);
                } else {
                    e = Expr::bin(op, e, b);
                }
            }
            e
        }
    }
}

/// bound of a `random` call: >= 2 by construction unless the profile wants bad bounds
pub fn gen_random_bound(ch: &mut Ch, depth: u32, env: &ExprEnv) -> Expr {
    if env.cfg.bad_random_bounds && ch.chance(1, 4) {
        return Expr::konst(ch.range(-1, 1));
    }
    match ch.weighted(&[4, 3, 3, 1, 1]) {
        0 => Expr::lit(2),
        1 => Expr::lit(ch.range(2, 9) as u64),
        2 => {
            // (e & 7) + 2
            let e = gen_expr(ch, depth.min(1), env);
            Expr::bin(BinOp::Add, Expr::bin(BinOp::And, e, Expr::lit(7)), Expr::lit(2))
        }
        3 => Expr::lit(1u64 << ch.range(2, 62)),
        _ => Expr::lit((1u64 << 62) - ch.range(0, 3) as u64),
    }
}

// ---------------------------------------------------------------------------------------------
// programs

struct PGen<'a> {
    cfg: &'a Cfg,
    cols: Vec<Col>,
    /// readable device outputs (names that are identifiers)
    outs: Vec<String>,
    scope: Scope,
    next_row: usize,
    next_while: usize,
    pending_declares: Vec<(String, Expr)>,
    stmts_left: usize,
    signal_names: Vec<String>,
}

pub fn is_ident(s: &str) -> bool {
    let mut cs = s.chars();
    let Some(c) = cs.next() else { return false };
    if !(c.is_ascii_alphabetic() || c == '_') {
        return false;
    }
    if !cs.all(|c| c.is_ascii_alphanumeric() || c == '_') {
        return false;
    }
    !matches!(
        s,
        "end" | "loop" | "repeat" | "bits" | "let" | "resetRandom" | "while" | "declare"
            | "program" | "init" | "memory" | "def" | "call"
    )
}

impl<'a> PGen<'a> {
    fn expr(&mut self, ch: &mut Ch, depth: u32) -> Expr {
        let vars = self.scope.visible();
        let maybe = if self.cfg.maybe_unbound_refs { self.scope.maybe_names() } else { vec![] };
        let env = ExprEnv {
            vars: &vars,
            outs: if self.cfg.reads { &self.outs } else { &[] },
            maybe: &maybe,
            cfg: &self.cfg.expr,
        };
        gen_expr(ch, depth, &env)
    }

    fn fit(&self, e: Expr, bits: usize) -> Expr {
        match self.cfg.fit {
            Fit::Free => e,
            Fit::Mask => {
                let m = if bits >= 16 { 0xFFFF } else { (1u64 << bits) - 1 };
                Expr::bin(BinOp::And, e, Expr::lit(m))
            }
        }
    }

    fn num_entry(&self, ch: &mut Ch, bits: usize) -> Entry {
        let r = gen_radix(ch, self.cfg.expr.radix);
        match self.cfg.fit {
            Fit::Mask => {
                let max = if bits >= 8 { 255 } else { (1u64 << bits) - 1 };
                Entry::Num(ch.pick(max as u32 + 1) as u64, r)
            }
            Fit::Free => {
                if ch.chance(1, 3) {
                    let v = *ch.choose(&BOUNDARY);
                    Entry::Num(if v < 0 { (v as u64) & (i64::MAX as u64) } else { v as u64 }, r)
                } else if ch.chance(1, 3) {
                    Entry::Num(ch.u64() & i64::MAX as u64, r)
                } else {
                    Entry::Num(ch.range(0, 9) as u64, r)
                }
            }
        }
    }

    fn row(&mut self, ch: &mut Ch) -> Vec<Entry> {
        let cfg = self.cfg;
        let ncols = self.cols.len();
        let mut es = vec![];
        let mut j = 0;
        let mut xs = 0;
        // per-row flavour: how eager this row is to use X / C
        let xw = if cfg.allow_input_x { *ch.choose(&[0u32, 2, 6]) } else { 0 };
        let cw = if cfg.allow_c { *ch.choose(&[0u32, 2, 6]) } else { 0 };
        let mut after_zero_bits = false;
        let all_x = cfg.all_x_rows && ch.chance(1, 6);
        while j < ncols {
            if all_x && self.cols[j].role == ColRole::InputOnly {
                es.push(Entry::X(true));
                j += 1;
                continue;
            }
            if cfg.bits_entries && !after_zero_bits && ch.chance(1, 8) {
                let remaining = (ncols - j).min(64);
                let mut k = ch.upto(remaining + 1);
                if remaining == 64 && ch.chance(1, 4) {
                    k = 64;
                }
                let mut e = self.expr(ch, 2);
                if k > 8 {
                    // high bits matter: mix in a non-palindromic 63-bit pattern
                    e = Expr::bin(BinOp::Xor, e, Expr::lit(0x2D3C_4B5A_6978_8796));
                }
                es.push(Entry::Bits(k as u8, e));
                j += k;
                after_zero_bits = k == 0;
                continue;
            }
            after_zero_bits = false;
            let col = self.cols[j].clone();
            let upper = !ch.chance(1, 4);
            let zw = if cfg.z_entries { 1 } else { 0 };
            let en = match col.role {
                ColRole::InputOnly => {
                    let xw = if xs < cfg.max_x { xw } else { 0 };
                    match ch.weighted(&[5, 4, zw, xw, cw]) {
                        0 => self.num_entry(ch, col.min_bits),
                        1 => {
                            let e = self.expr(ch, cfg.expr.max_depth);
                            Entry::Paren(self.fit(e, col.min_bits))
                        }
                        2 => Entry::Z(upper),
                        3 => {
                            xs += 1;
                            Entry::X(upper)
                        }
                        _ => Entry::C(upper),
                    }
                }
                ColRole::ExpectedOnly => match ch.weighted(&[4, 4, 3, zw]) {
                    0 => self.num_entry(ch, col.min_bits),
                    1 => {
                        let e = self.expr(ch, cfg.expr.max_depth);
                        Entry::Paren(self.fit(e, col.min_bits))
                    }
                    2 => Entry::X(upper),
                    _ => Entry::Z(upper),
                },
                // a column that is the input `<b>_out` and the expected value of the bidirectional
                // `<b>` at once: as an input column it may hold C
                ColRole::Shared => match ch.weighted(&[4, 4, zw, cw / 2]) {
                    0 => self.num_entry(ch, col.min_bits),
                    1 => {
                        let e = self.expr(ch, cfg.expr.max_depth);
                        Entry::Paren(self.fit(e, col.min_bits))
                    }
                    2 => Entry::Z(upper),
                    _ => Entry::C(upper),
                },
            };
            es.push(en);
            j += 1;
        }
        es
    }

    /// a loop bound that is small by construction
    fn bound(&mut self, ch: &mut Ch) -> (Expr, bool) {
        let vars = self.scope.visible();
        let small: Vec<&(String, bool)> = vars.iter().filter(|v| v.1).collect();
        let any = !vars.is_empty();
        let dev = self.cfg.reads && !self.outs.is_empty();
        let w = [
            6,
            if small.is_empty() { 0 } else { 4 },
            if any { 3 } else { 0 },
            if dev { 3 } else { 0 },
            if dev && self.cfg.small_device { 2 } else { 0 },
            if small.is_empty() { 0 } else { 2 },
        ];
        match ch.weighted(&w) {
            0 => {
                let v = *ch.choose(&[2i64, 1, 3, 0, -1, 4, -3]);
                (with_radix(Expr::konst(v), gen_radix(ch, self.cfg.expr.radix)), true)
            }
            1 => (Expr::Var(small[ch.upto(small.len())].0.clone()), true),
            2 => {
                let v = Expr::Var(vars[ch.upto(vars.len())].0.clone());
                if ch.chance(1, 2) {
                    (Expr::bin(BinOp::And, v, Expr::lit(3)), true)
                } else {
                    (Expr::bin(BinOp::Rem, v, Expr::lit(3)), true)
                }
            }
            3 => {
                let v = Expr::Var(self.outs[ch.upto(self.outs.len())].clone());
                if ch.chance(1, 2) {
                    (Expr::bin(BinOp::And, v, Expr::lit(3)), true)
                } else {
                    (Expr::bin(BinOp::Rem, v, Expr::lit(4)), true)
                }
            }
            4 => {
                let n = self.outs[ch.upto(self.outs.len())].clone();
                // a variable of the same name takes precedence at run time: it must be small too
                match vars.iter().find(|v| v.0 == n) {
                    Some((_, false)) => (Expr::bin(BinOp::And, Expr::Var(n), Expr::lit(3)), true),
                    _ => (Expr::Var(n), true),
                }
            }
            _ => {
                let v = Expr::Var(small[ch.upto(small.len())].0.clone());
                if ch.chance(1, 2) {
                    (Expr::bin(BinOp::Add, v, Expr::lit(1)), true)
                } else {
                    (Expr::bin(BinOp::Sub, Expr::lit(2), v), true)
                }
            }
        }
    }

    fn let_stmt(&mut self, ch: &mut Ch) -> Stmt {
        let forbidden = self.scope.innermost_counter().map(|s| s.to_string());
        let mut name = VAR_NAMES[ch.upto(VAR_NAMES.len())].to_string();
        if !self.cfg.vars_like_signals && self.signal_names.contains(&name) {
            name = "s".to_string();
        }
        if Some(&name) == forbidden.as_ref() {
            name = "s".to_string();
            if Some(&name) == forbidden.as_ref() {
                name = "x1".to_string();
            }
        }
        if self.cfg.counter_rebind && ch.chance(1, 5) {
            // rebind the counter of the innermost loop frame, in ways that cannot make the
            // loop run for ever: move it forward, or to a 64-bit boundary value
            if let Some(c) = self.scope.innermost_counter().map(|s| s.to_string()) {
                let fi = self.scope.frames.iter().rposition(|f| !f.tentative).unwrap();
                // once the counter has been pushed to the top of the range it is never moved
                // forward again (that would wrap around and loop for 2^63 iterations)
                let k = if self.scope.frames[fi].counter_maxed { 1 + ch.upto(2) } else { ch.upto(3) };
                let e = match k {
                    0 => Expr::bin(BinOp::Add, Expr::var(&c), Expr::lit(ch.range(0, 2) as u64)),
                    1 => Expr::lit(i64::MAX as u64),
                    _ => Expr::lit(i64::MAX as u64 - 1),
                };
                if k != 0 {
                    self.scope.frames[fi].counter_maxed = true;
                }
                self.scope.bind(&c, false);
                return Stmt::Let(c, e);
            }
        }
        // small right-hand sides keep the variable usable as a loop bound
        if ch.chance(1, 3) {
            let v = ch.range(-2, 4);
            self.scope.bind(&name, true);
            return Stmt::Let(name, Expr::konst(v));
        }
        let e = self.expr(ch, self.cfg.expr.max_depth);
        self.scope.bind(&name, false);
        Stmt::Let(name, e)
    }

    fn block(&mut self, ch: &mut Ch, depth: usize, out: &mut Vec<Stmt>) {
        let cfg = self.cfg;
        let max = if depth == 0 { cfg.max_block } else { (cfg.max_block / 2).max(2) };
        let n = 1 + ch.upto(max);
        for _ in 0..n {
            if self.stmts_left == 0 {
                break;
            }
            self.stmts_left -= 1;
            if !self.pending_declares.is_empty() && ch.chance(1, 5) {
                let (n, e) = self.pending_declares.remove(0);
                out.push(Stmt::Declare(n, e));
            }
            let deeper = depth < cfg.max_depth;
            let w = [
                cfg.w_row,
                cfg.w_let,
                if deeper { cfg.w_loop } else { 0 },
                cfg.w_repeat,
                if deeper { cfg.w_while } else { 0 },
                cfg.w_reset,
            ];
            match ch.weighted(&w) {
                0 => {
                    let id = self.next_row;
                    self.next_row += 1;
                    let prev = match out.last() {
                        Some(Stmt::Row(_, p)) if cfg.dup_rows && ch.chance(1, 4) => Some(p.clone()),
                        _ => None,
                    };
                    let es = match prev {
                        Some(mut es) => {
                            if cfg.allow_c && ch.chance(1, 2) {
                                // the same row with a clock: one input column holding 0 becomes C
                                let mut col = 0usize;
                                for e in es.iter_mut() {
                                    let w = e.width();
                                    if matches!(e, Entry::Num(0, _)) && self.cols.get(col).map(|c| c.role == ColRole::InputOnly).unwrap_or(false) {
                                        *e = Entry::C(true);
                                        break;
                                    }
                                    col += w;
                                }
                            }
                            es
                        }
                        None => self.row(ch),
                    };
                    out.push(Stmt::Row(id, es));
                }
                1 => {
                    let s = self.let_stmt(ch);
                    out.push(s);
                }
                2 => {
                    let (bound, _) = self.bound(ch);
                    let mut v = COUNTER_NAMES[ch.upto(COUNTER_NAMES.len())].to_string();
                    if !self.cfg.vars_like_signals && self.signal_names.contains(&v) {
                        v = "k".to_string();
                    }
                    self.scope.frames.push(SFrame {
                        vars: vec![(v.clone(), true)],
                        counter: Some(v.clone()),
                        tentative: false,
                        counter_maxed: false,
                    });
                    let mut inner = vec![];
                    // one loop in ten has no statements at all in its body
                    if !ch.chance(1, 10) {
                        self.block(ch, depth + 1, &mut inner);
                    }
                    self.scope.pop();
                    out.push(Stmt::Loop(v, bound, inner));
                }
                3 => {
                    let (bound, _) = self.bound(ch);
                    self.scope.frames.push(SFrame {
                        vars: vec![("n".to_string(), true)],
                        counter: Some("n".to_string()),
                        tentative: false,
                        counter_maxed: false,
                    });
                    let id = self.next_row;
                    self.next_row += 1;
                    let es = self.row(ch);
                    self.scope.pop();
                    out.push(Stmt::Repeat(bound, id, es));
                }
                4 => self.while_stmt(ch, depth, out),
                _ => out.push(Stmt::ResetRandom),
            }
        }
    }

    fn while_stmt(&mut self, ch: &mut Ch, depth: usize, out: &mut Vec<Stmt>) {
        let cfg = self.cfg;
        let dev = cfg.reads && cfg.device_whiles && !self.outs.is_empty();
        let kind = ch.weighted(&[5, 3, 2, if dev { 3 } else { 0 }]);
        let wname = format!("w{}", self.next_while);
        self.next_while += 1;
        match kind {
            0 | 1 => {
                // counter pattern (up or down)
                let lim = ch.range(0, 3);
                let (init, cond, step) = if kind == 1 && ch.chance(1, 2) {
                    // counts up from a negative value: the condition is non-zero and negative
                    (
                        Expr::konst(-lim),
                        Expr::var(&wname),
                        Expr::bin(BinOp::Add, Expr::var(&wname), Expr::lit(1)),
                    )
                } else if kind == 0 {
                    (
                        Expr::lit(0),
                        Expr::bin(BinOp::Lt, Expr::var(&wname), Expr::lit(lim as u64)),
                        Expr::bin(BinOp::Add, Expr::var(&wname), Expr::lit(1)),
                    )
                } else {
                    (
                        Expr::lit(lim as u64),
                        Expr::var(&wname),
                        Expr::bin(BinOp::Sub, Expr::var(&wname), Expr::lit(1)),
                    )
                };
                out.push(Stmt::Let(wname.clone(), init));
                self.scope.bind(&wname, true);
                self.scope.frames.push(SFrame { vars: vec![], counter: None, tentative: true, counter_maxed: false });
                let mut inner = vec![];
                self.block(ch, depth + 1, &mut inner);
                inner.push(Stmt::Let(wname.clone(), step));
                self.scope.pop();
                out.push(Stmt::While(cond, inner));
            }
            2 => {
                // never runs
                let cond = if ch.chance(1, 2) {
                    Expr::lit(0)
                } else {
                    Expr::bin(BinOp::Ne, Expr::lit(3), Expr::lit(3))
                };
                self.scope.frames.push(SFrame { vars: vec![], counter: None, tentative: true, counter_maxed: false });
                let mut inner = vec![];
                if !ch.chance(1, 6) {
                    self.block(ch, depth + 1, &mut inner);
                }
                self.scope.pop();
                out.push(Stmt::While(cond, inner));
            }
            _ => {
                // free condition on a device output; the body starts with a row so that every
                // iteration performs an output-reading call and the answers move on
                let q = Expr::Var(self.outs[ch.upto(self.outs.len())].clone());
                let cond = match ch.upto(3) {
                    0 => Expr::bin(BinOp::And, q, Expr::lit(1)),
                    1 => Expr::bin(BinOp::Lt, q, Expr::lit(3)),
                    _ => Expr::un(UnOp::Not, Expr::bin(BinOp::Eq, q, Expr::lit(2))),
                };
                self.scope.frames.push(SFrame { vars: vec![], counter: None, tentative: true, counter_maxed: false });
                let mut inner = vec![];
                let id = self.next_row;
                self.next_row += 1;
                // the leading row has no C / X expansion issues for termination; any row will do
                let es = self.row(ch);
                inner.push(Stmt::Row(id, es));
                self.block(ch, depth + 1, &mut inner);
                self.scope.pop();
                out.push(Stmt::While(cond, inner));
            }
        }
    }
}

/// Generate signals, header, virtual signals and a program.
pub fn gen_case(ch: &mut Ch, cfg: &Cfg) -> Built {
    let sigs = gen_signals(ch, cfg);
    gen_case_with(ch, cfg, sigs)
}

/// Generate header, virtual signals and a program for a given signal list.
pub fn gen_case_with(ch: &mut Ch, cfg: &Cfg, sigs: Vec<Sig>) -> Built {
    // virtual signals
    let nv = if cfg.max_virtual > 0 { cfg.min_virtual + ch.upto(cfg.max_virtual - cfg.min_virtual + 1) } else { 0 };
    let vnames = pick_names(ch, &VIRT_NAMES, nv);
    let virtuals: Vec<(String, bool)> = vnames.iter().map(|n| (n.clone(), !ch.chance(1, 3))).collect();
    let header = gen_header(ch, cfg, &sigs, &virtuals);
    let cols = col_roles(&header, &sigs);
    let outs: Vec<String> =
        sigs.iter().filter(|s| s.is_output() && is_ident(&s.name)).map(|s| s.name.clone()).collect();
    let mut g = PGen {
        cfg,
        cols: cols.clone(),
        outs: outs.clone(),
        scope: Scope {
            frames: vec![SFrame { vars: vec![], counter: None, tentative: false, counter_maxed: false }],
            maybe: vec![],
        },
        next_row: 0,
        next_while: 0,
        pending_declares: vec![],
        stmts_left: 40,
        signal_names: sigs.iter().map(|s| s.name.clone()).collect(),
    };
    for (n, _) in &virtuals {
        // expressions over output-capable signals only, no variables
        let mut vcfg = cfg.expr.clone();
        vcfg.random = cfg.virtual_random && cfg.expr.random;
        vcfg.signext = false;
        let env = ExprEnv { vars: &[], outs: &outs, maybe: &[], cfg: &vcfg };
        let e = if outs.is_empty() { gen_lit(ch, &vcfg) } else { gen_expr(ch, 2, &env) };
        g.pending_declares.push((n.clone(), e));
    }
    let mut stmts: Vec<Stmt> = vec![];
    g.block(ch, 0, &mut stmts);
    // remaining declarations go to the front or the back
    let rest = std::mem::take(&mut g.pending_declares);
    for (n, e) in rest {
        if ch.chance(1, 2) {
            stmts.push(Stmt::Declare(n, e));
        } else {
            stmts.insert(0, Stmt::Declare(n, e));
        }
    }
    sanitize_bounds(&mut stmts);
    let prog = Program { header, stmts };
    let analysis = analyse(&prog);
    Built { prog, sigs, cols, analysis }
}

/// Loop bounds must stay small on *every* iteration, not only the first: a `let` later in an
/// enclosing loop or while body rebinds (or shadows) a name before the next pass. Any bound
/// that mentions a name which is bound to a possibly large value anywhere in an enclosing
/// frame is masked to 0..=3.
fn sanitize_bounds(stmts: &mut [Stmt]) {
    fn small_rhs(e: &Expr) -> bool {
        match e {
            Expr::Lit(v, _) => *v <= 8,
            Expr::Un(UnOp::BitNot, a) | Expr::Un(UnOp::Neg, a) => matches!(**a, Expr::Lit(v, _) if v <= 8),
            _ => false,
        }
    }
    /// names bound to a possibly large value at the level of this frame (while bodies
    /// included, nested loop bodies excluded: their bindings vanish)
    fn collect(b: &[Stmt], out: &mut Vec<String>) {
        for s in b {
            match s {
                Stmt::Let(n, e) if !small_rhs(e) && !n.starts_with('w') => out.push(n.clone()),
                Stmt::Let(n, e) if !small_rhs(e) => {
                    // the reserved while counters w<k> only ever step by one
                    let _ = (n, e);
                }
                Stmt::While(_, inner) => collect(inner, out),
                _ => {}
            }
        }
    }
    fn mentions(e: &Expr, names: &[String]) -> bool {
        let mut m = false;
        e.visit(&mut |x| {
            if let Expr::Var(n) = x {
                if names.contains(n) {
                    m = true
                }
            }
        });
        m
    }
    fn masked(e: &Expr) -> bool {
        matches!(e, Expr::Bin(BinOp::And | BinOp::Rem, _, r) if matches!(**r, Expr::Lit(v, _) if v <= 8))
            || matches!(e, Expr::Lit(..))
            || matches!(e, Expr::Un(_, a) if matches!(**a, Expr::Lit(..)))
    }
    fn fix(bound: &mut Expr, names: &[String]) {
        if !masked(bound) && mentions(bound, names) {
            let b = std::mem::replace(bound, Expr::lit(0));
            *bound = Expr::bin(BinOp::And, b, Expr::lit(3));
        }
    }
    fn walk(b: &mut [Stmt], unsafe_names: &[String]) {
        for s in b {
            match s {
                Stmt::Repeat(bound, ..) => fix(bound, unsafe_names),
                Stmt::Loop(_, bound, inner) => {
                    fix(bound, unsafe_names);
                    let mut names = unsafe_names.to_vec();
                    collect(inner, &mut names);
                    walk(inner, &names);
                }
                Stmt::While(_, inner) => walk(inner, unsafe_names),
                _ => {}
            }
        }
    }
    let mut names = vec![];
    collect(stmts, &mut names);
    walk(stmts, &names);
}

// ---------------------------------------------------------------------------------------------
// feature classification of a program (for non-triviality rules and histograms)

#[derive(Clone, Debug, Default)]
pub struct Feats {
    pub depth: usize,
    pub rows: usize,
    pub loops: usize,
    pub whiles: usize,
    pub repeats: usize,
    pub lets_in_loops: usize,
    pub shadowing: bool,
    pub loop_in_while: bool,
    pub while_in_loop: bool,
    pub computed_bound: bool,
    pub nonpositive_literal_bound: bool,
    pub device_read: bool,
    pub c_rows: usize,
    pub x_rows: usize,
    pub cx_rows: usize,
    pub bits_entries: usize,
    pub declares: usize,
    pub resets: usize,
    pub randoms: usize,
    /// loops / whiles whose body holds no statement
    pub empty_bodies: usize,
    /// ... of which loops whose bound draws from `random`
    pub empty_loop_random_bound: usize,
}

pub fn feats(b: &Built) -> Feats {
    let mut f = Feats::default();
    f.depth = b.prog.max_depth();
    f.device_read = !b.analysis.reads.is_empty();
    fn walk(
        bl: &[Stmt],
        in_loop: bool,
        in_while: bool,
        bound: &mut Vec<Vec<String>>,
        cols: &[Col],
        f: &mut Feats,
    ) {
        for s in bl {
            match s {
                Stmt::Let(n, _) => {
                    if in_loop {
                        f.lets_in_loops += 1;
                    }
                    let depth = bound.len();
                    if bound[..depth - 1].iter().any(|fr| fr.contains(n)) {
                        f.shadowing = true;
                    }
                    bound.last_mut().unwrap().push(n.clone());
                }
                Stmt::Row(_, es) | Stmt::Repeat(_, _, es) => {
                    f.rows += 1;
                    let mut col = 0;
                    let mut nx = 0;
                    let mut nc = 0;
                    for e in es {
                        match e {
                            Entry::X(_) => {
                                if cols.get(col).map(|c| c.role != ColRole::ExpectedOnly).unwrap_or(false) {
                                    nx += 1
                                }
                            }
                            Entry::C(_) => nc += 1,
                            Entry::Bits(..) => f.bits_entries += 1,
                            _ => {}
                        }
                        col += e.width();
                    }
                    if nx > 0 {
                        f.x_rows += 1
                    }
                    if nc > 0 {
                        f.c_rows += 1
                    }
                    if nx > 0 && nc > 0 {
                        f.cx_rows += 1
                    }
                    if let Stmt::Repeat(b, ..) = s {
                        f.repeats += 1;
                        if !matches!(b, Expr::Lit(..)) {
                            f.computed_bound = true;
                        }
                    }
                }
                Stmt::Loop(v, b, inner) => {
                    f.loops += 1;
                    if inner.is_empty() {
                        f.empty_bodies += 1;
                        let mut r = false;
                        b.visit(&mut |e| r |= matches!(e, Expr::Random(_)));
                        if r {
                            f.empty_loop_random_bound += 1;
                        }
                    }
                    if in_while {
                        f.loop_in_while = true;
                    }
                    match b {
                        Expr::Lit(0, _) => f.nonpositive_literal_bound = true,
                        Expr::Un(UnOp::BitNot, _) | Expr::Un(UnOp::Neg, _) => {
                            f.nonpositive_literal_bound = true
                        }
                        Expr::Lit(..) => {}
                        _ => f.computed_bound = true,
                    }
                    if bound.iter().any(|fr| fr.contains(v)) {
                        f.shadowing = true;
                    }
                    bound.push(vec![v.clone()]);
                    walk(inner, true, false, bound, cols, f);
                    bound.pop();
                }
                Stmt::While(_, inner) => {
                    f.whiles += 1;
                    if inner.is_empty() {
                        f.empty_bodies += 1;
                    }
                    if in_loop {
                        f.while_in_loop = true;
                    }
                    walk(inner, in_loop, true, bound, cols, f);
                }
                Stmt::ResetRandom => f.resets += 1,
                Stmt::Declare(..) => f.declares += 1,
            }
        }
    }
    let mut bound = vec![vec![]];
    walk(&b.prog.stmts, false, false, &mut bound, &b.cols, &mut f);
    b.prog.visit_exprs(&mut |e| {
        if matches!(e, Expr::Random(_)) {
            f.randoms += 1
        }
    });
    f
}

/// Parenthesise every operand of every expression of a program (see ExprCfg::full_parens).
pub fn parenthesise_program(b: &mut [Stmt]) {
    fn ex(e: &mut Expr) {
        let old = std::mem::replace(e, Expr::lit(0));
        *e = fully_parenthesise(old);
    }
    fn entries(es: &mut [Entry]) {
        for en in es {
            if let Entry::Paren(e) | Entry::Bits(_, e) = en {
                ex(e)
            }
        }
    }
    for s in b {
        match s {
            Stmt::Let(_, e) | Stmt::Declare(_, e) => ex(e),
            Stmt::Row(_, es) => entries(es),
            Stmt::Repeat(bound, _, es) => {
                ex(bound);
                entries(es)
            }
            Stmt::Loop(_, bound, inner) => {
                ex(bound);
                parenthesise_program(inner)
            }
            Stmt::While(c, inner) => {
                ex(c);
                parenthesise_program(inner)
            }
            Stmt::ResetRandom => {}
        }
    }
}
