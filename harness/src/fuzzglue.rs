//! Glue between the libFuzzer targets (harness/fuzz) and the property oracles, and the
//! replay of fuzz artifacts through the ordinary harness path (DESIGN 2.3).

use crate::engine::*;

thread_local! {
    static KNOWN: std::cell::RefCell<Vec<KnownFinding>> = const { std::cell::RefCell::new(vec![]) };
}

pub fn init() {
    crate::real::install_panic_hook();
    KNOWN.with(|k| *k.borrow_mut() = load_known());
}

fn is_known_open(key: &str) -> bool {
    KNOWN.with(|k| k.borrow().iter().any(|f| f.open && f.key == key))
}

/// bytes -> three choice streams (stream 1, layout, stays empty: canonical layout)
pub fn bytes_to_streams(data: &[u8]) -> Streams {
    let words: Vec<u32> = data.chunks(4).map(|c| {
        let mut b = [0u8; 4];
        b[..c.len()].copy_from_slice(c);
        u32::from_le_bytes(b)
    }).collect();
    if words.is_empty() {
        return [vec![], vec![], vec![]];
    }
    // the first word says how many of the trailing words drive the device/schedule stream
    let n2 = (words[0] as usize % 33).min(words.len() - 1);
    let split = words.len() - n2;
    [words[1..split].to_vec(), vec![], words[split..].to_vec()]
}

/// (key, message) of an oracle violation that is not an open known finding
pub fn parse_bytes_kv(data: &[u8]) -> Option<(String, String)> {
    let text = std::str::from_utf8(data).ok()?;
    if crate::props::c09::too_deep(text) {
        return None;
    }
    let (_, fail) = crate::props::c09::parse_oracle(text);
    let (key, msg) = fail?;
    if is_known_open(&key) {
        return None;
    }
    Some((key, msg))
}

pub fn dig_bytes_kv(data: &[u8]) -> Option<(String, String)> {
    let text = std::str::from_utf8(data).ok()?;
    let mut out = CaseOut::new();
    let _ = crate::props::c16::dig_text_oracle(text, &mut out);
    match out.verdict {
        Verdict::Fail { key, msg } if !is_known_open(&key) => Some((key, msg)),
        _ => None,
    }
}

pub fn run_structured_kv(data: &[u8]) -> Option<(String, String)> {
    let s = bytes_to_streams(data);
    let out = crate::props::c10::run_chaos(&s);
    match out.verdict {
        Verdict::Fail { key, msg } if !is_known_open(&key) => Some((key, msg)),
        _ => None,
    }
}

pub fn parse_bytes(data: &[u8]) -> Option<String> {
    parse_bytes_kv(data).map(|(k, m)| format!("{k}: {m}"))
}
pub fn dig_bytes(data: &[u8]) -> Option<String> {
    dig_bytes_kv(data).map(|(k, m)| format!("{k}: {m}"))
}
pub fn run_structured(data: &[u8]) -> Option<String> {
    run_structured_kv(data).map(|(k, m)| format!("{k}: {m}"))
}

// ---------------------------------------------------------------------------------------------
// campaign driver (thorough tier)

#[derive(Debug, Default)]
pub struct FuzzReport {
    pub target: String,
    pub status: String,
    pub execs: u64,
    pub secs: u64,
    pub corpus_seeds: usize,
    pub corpus_final: usize,
    pub artifacts: usize,
    pub inconclusive_artifacts: usize,
    pub unreproduced_artifacts: usize,
    /// (key, message, replay path)
    pub violations: Vec<(String, String, std::path::PathBuf)>,
}

fn target_settings(target: &str) -> (&'static str, Option<&'static str>, fn(&[u8]) -> Option<(String, String)>) {
    match target {
        "parse_bytes" => ("4096", Some("parse.dict"), parse_bytes_kv),
        "dig_bytes" => ("16384", Some("dig.dict"), dig_bytes_kv),
        _ => ("2048", None, run_structured_kv),
    }
}

fn hex(data: &[u8]) -> String {
    data.iter().map(|b| format!("{b:02x}")).collect()
}

pub fn unhex(s: &str) -> Vec<u8> {
    (0..s.len() / 2).filter_map(|i| u8::from_str_radix(&s[2 * i..2 * i + 2], 16).ok()).collect()
}

/// Run one libFuzzer campaign and replay its artifacts through the harness oracles.
pub fn campaign(property: &str, target: &str, seed: u64, secs: u64) -> FuzzReport {
    use std::process::Command;
    let mut rep = FuzzReport { target: target.to_string(), secs, ..Default::default() };
    let harness = verif_root().join("harness");
    let build = Command::new("cargo")
        .args(["+nightly", "fuzz", "build", target])
        .current_dir(&harness)
        .env("CARGO_NET_OFFLINE", "true")
        .output();
    match build {
        Ok(o) if o.status.success() => {}
        Ok(o) => {
            rep.status = format!("fuzz build failed: {}", String::from_utf8_lossy(&o.stderr).lines().last().unwrap_or(""));
            return rep;
        }
        Err(e) => {
            rep.status = format!("cargo fuzz not runnable: {e}");
            return rep;
        }
    }
    let bin = harness.join("fuzz/target/x86_64-unknown-linux-gnu/release").join(target);
    let run = harness.join("fuzz").join(format!("run-{}-{}", std::process::id(), target));
    let corpus = run.join("corpus");
    let arts = run.join("artifacts");
    let _ = std::fs::remove_dir_all(&run);
    if std::fs::create_dir_all(&corpus).is_err() || std::fs::create_dir_all(&arts).is_err() {
        rep.status = "cannot create run directory".into();
        return rep;
    }
    if let Ok(rd) = std::fs::read_dir(harness.join("corpus").join(target)) {
        for e in rd.flatten() {
            if std::fs::copy(e.path(), corpus.join(e.file_name())).is_ok() {
                rep.corpus_seeds += 1;
            }
        }
    }
    let (max_len, dict, oracle) = target_settings(target);
    let mut cmd = Command::new(&bin);
    cmd.current_dir(&run)
        .arg("corpus")
        .arg(format!("-max_total_time={secs}"))
        .args(["-jobs=8", "-workers=8", "-timeout=25", "-rss_limit_mb=4096", "-len_control=0", "-print_final_stats=1"])
        .arg(format!("-max_len={max_len}"))
        .arg(format!("-seed={}", (seed % 0xFFFF_FFF0) + 1))
        .arg("-artifact_prefix=artifacts/");
    if let Some(d) = dict {
        cmd.arg(format!("-dict={}", harness.join("fuzz").join(d).display()));
    }
    let status = cmd.stdout(std::process::Stdio::null()).stderr(std::process::Stdio::null()).status();
    rep.status = match status {
        Ok(s) => format!("ran (exit {:?})", s.code()),
        Err(e) => format!("could not start fuzzer: {e}"),
    };
    if let Ok(rd) = std::fs::read_dir(&run) {
        for e in rd.flatten() {
            let name = e.file_name().to_string_lossy().to_string();
            if name.starts_with("fuzz-") && name.ends_with(".log") {
                if let Ok(t) = std::fs::read_to_string(e.path()) {
                    for l in t.lines() {
                        if let Some(n) = l.strip_prefix("stat::number_of_executed_units:") {
                            rep.execs += n.trim().parse::<u64>().unwrap_or(0);
                        }
                    }
                }
            }
        }
    }
    rep.corpus_final = std::fs::read_dir(&corpus).map(|d| d.count()).unwrap_or(0);
    if let Ok(rd) = std::fs::read_dir(&arts) {
        for e in rd.flatten() {
            rep.artifacts += 1;
            let name = e.file_name().to_string_lossy().to_string();
            let Ok(data) = std::fs::read(e.path()) else { continue };
            if name.starts_with("crash-") {
                match oracle(&data) {
                    Some((key, msg)) => {
                        if rep.violations.iter().any(|v| v.0 == key) {
                            continue;
                        }
                        let path = match std::str::from_utf8(&data) {
                            Ok(text) if target != "run_structured" => write_text_replay(property, "text", &key, &msg, text),
                            _ => write_text_replay(property, "fuzz-bytes-hex", &key, &msg, &hex(&data)),
                        };
                        rep.violations.push((key, msg, path));
                    }
                    None => rep.unreproduced_artifacts += 1,
                }
            } else {
                // timeout-*, oom-*, leak-*: never a violation
                rep.inconclusive_artifacts += 1;
                let keep = verif_root().join("replays").join(property);
                let _ = std::fs::create_dir_all(&keep);
                let _ = std::fs::copy(e.path(), keep.join(format!("{target}-{name}")));
            }
        }
    }
    let _ = std::fs::remove_dir_all(&run);
    rep
}
