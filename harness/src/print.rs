//! Printer: Program -> token lines -> text, owning all layout freedom (DESIGN 2.5).

use crate::choice::Ch;
use crate::model::*;

#[derive(Clone, Debug, PartialEq, Eq)]
pub enum TokClass {
    /// identifier / keyword / X Z C / header name
    Word,
    /// integer literal with its value and the radix the model prefers
    Num(u64, Radix),
    /// operator or punctuation
    Sym,
}

#[derive(Clone, Debug, PartialEq, Eq)]
pub struct Tok {
    pub text: String,
    pub class: TokClass,
}

#[derive(Clone, Debug, PartialEq, Eq)]
pub enum LineKind {
    Header,
    Let,
    Row,
    Repeat,
    LoopHead,
    WhileHead,
    EndLoop,
    EndWhile,
    ResetRandom,
    Declare,
}

#[derive(Clone, Debug, PartialEq, Eq)]
pub struct Line {
    pub toks: Vec<Tok>,
    pub kind: LineKind,
    /// row id for Row / Repeat lines
    pub row: Option<usize>,
    /// block nesting depth of the statement
    pub depth: usize,
}

fn word(s: &str) -> Tok {
    Tok { text: s.to_string(), class: TokClass::Word }
}
fn sym(s: &str) -> Tok {
    Tok { text: s.to_string(), class: TokClass::Sym }
}
fn num(v: u64, r: Radix) -> Tok {
    Tok { text: fmt_num(v, r), class: TokClass::Num(v, r) }
}

pub fn fmt_num(v: u64, r: Radix) -> String {
    match r {
        Radix::Dec => format!("{v}"),
        Radix::Hex(ux, ud) => {
            let p = if ux { "0X" } else { "0x" };
            if ud {
                format!("{p}{v:X}")
            } else {
                format!("{p}{v:x}")
            }
        }
        Radix::Bin(ub) => {
            let p = if ub { "0B" } else { "0b" };
            format!("{p}{v:b}")
        }
        Radix::Oct => format!("0{v:o}"),
    }
}

/// precedence level of an expression node as the *stated* table has it:
/// 0 = atom / unary operand position, 1..8 binary levels
fn level(e: &Expr) -> u8 {
    match e {
        Expr::Bin(op, _, _) => op.level(),
        _ => 0,
    }
}

pub fn expr_toks(e: &Expr, out: &mut Vec<Tok>) {
    match e {
        Expr::Lit(v, r) => out.push(num(*v, *r)),
        Expr::Var(n) => out.push(word(n)),
        Expr::Un(op, a) => {
            out.push(sym(op.text()));
            // unary operand parenthesised iff binary
            if matches!(**a, Expr::Bin(..)) {
                out.push(sym("("));
                expr_toks(a, out);
                out.push(sym(")"));
            } else {
                expr_toks(a, out);
            }
        }
        Expr::Bin(op, a, b) => {
            let l = op.level();
            // left operand parenthesised iff strictly looser
            let pa = level(a) > l;
            // right operand parenthesised iff looser or equal
            let pb = matches!(**b, Expr::Bin(..)) && level(b) >= l;
            if pa {
                out.push(sym("("));
            }
            expr_toks(a, out);
            if pa {
                out.push(sym(")"));
            }
            out.push(sym(op.text()));
            if pb {
                out.push(sym("("));
            }
            expr_toks(b, out);
            if pb {
                out.push(sym(")"));
            }
        }
        Expr::Ite(c, a, b) => {
            out.push(word("ite"));
            out.push(sym("("));
            expr_toks(c, out);
            out.push(sym(","));
            expr_toks(a, out);
            out.push(sym(","));
            expr_toks(b, out);
            out.push(sym(")"));
        }
        Expr::Random(a) => {
            out.push(word("random"));
            out.push(sym("("));
            expr_toks(a, out);
            out.push(sym(")"));
        }
        Expr::SignExt(a, b) => {
            out.push(word("signExt"));
            out.push(sym("("));
            expr_toks(a, out);
            out.push(sym(","));
            expr_toks(b, out);
            out.push(sym(")"));
        }
        Expr::Group(a) => {
            out.push(sym("("));
            expr_toks(a, out);
            out.push(sym(")"));
        }
    }
}

pub fn entry_toks(en: &Entry, out: &mut Vec<Tok>) {
    match en {
        Entry::Num(v, r) => out.push(num(*v, *r)),
        Entry::Paren(e) => {
            out.push(sym("("));
            expr_toks(e, out);
            out.push(sym(")"));
        }
        Entry::Bits(k, e) => {
            out.push(word("bits"));
            out.push(sym("("));
            out.push(num(*k as u64, Radix::Dec));
            out.push(sym(","));
            expr_toks(e, out);
            out.push(sym(")"));
        }
        Entry::X(u) => out.push(word(if *u { "X" } else { "x" })),
        Entry::Z(u) => out.push(word(if *u { "Z" } else { "z" })),
        Entry::C(u) => out.push(word(if *u { "C" } else { "c" })),
    }
}

pub fn program_lines(p: &Program) -> Vec<Line> {
    let mut lines = vec![Line {
        toks: p.header.iter().map(|h| word(h)).collect(),
        kind: LineKind::Header,
        row: None,
        depth: 0,
    }];
    fn block(b: &[Stmt], depth: usize, lines: &mut Vec<Line>) {
        for s in b {
            let mut toks = vec![];
            match s {
                Stmt::Let(n, e) => {
                    toks.push(word("let"));
                    toks.push(word(n));
                    toks.push(sym("="));
                    expr_toks(e, &mut toks);
                    toks.push(sym(";"));
                    lines.push(Line { toks, kind: LineKind::Let, row: None, depth });
                }
                Stmt::Row(id, es) => {
                    for en in es {
                        entry_toks(en, &mut toks);
                    }
                    lines.push(Line { toks, kind: LineKind::Row, row: Some(*id), depth });
                }
                Stmt::Repeat(bound, id, es) => {
                    toks.push(word("repeat"));
                    toks.push(sym("("));
                    expr_toks(bound, &mut toks);
                    toks.push(sym(")"));
                    for en in es {
                        entry_toks(en, &mut toks);
                    }
                    lines.push(Line { toks, kind: LineKind::Repeat, row: Some(*id), depth });
                }
                Stmt::Loop(v, bound, inner) => {
                    toks.push(word("loop"));
                    toks.push(sym("("));
                    toks.push(word(v));
                    toks.push(sym(","));
                    expr_toks(bound, &mut toks);
                    toks.push(sym(")"));
                    lines.push(Line { toks, kind: LineKind::LoopHead, row: None, depth });
                    block(inner, depth + 1, lines);
                    lines.push(Line {
                        toks: vec![word("end"), word("loop")],
                        kind: LineKind::EndLoop,
                        row: None,
                        depth,
                    });
                }
                Stmt::While(c, inner) => {
                    toks.push(word("while"));
                    toks.push(sym("("));
                    expr_toks(c, &mut toks);
                    toks.push(sym(")"));
                    lines.push(Line { toks, kind: LineKind::WhileHead, row: None, depth });
                    block(inner, depth + 1, lines);
                    lines.push(Line {
                        toks: vec![word("end"), word("while")],
                        kind: LineKind::EndWhile,
                        row: None,
                        depth,
                    });
                }
                Stmt::ResetRandom => {
                    toks.push(word("resetRandom"));
                    toks.push(sym(";"));
                    lines.push(Line { toks, kind: LineKind::ResetRandom, row: None, depth });
                }
                Stmt::Declare(n, e) => {
                    toks.push(word("declare"));
                    toks.push(word(n));
                    toks.push(sym("="));
                    expr_toks(e, &mut toks);
                    toks.push(sym(";"));
                    lines.push(Line { toks, kind: LineKind::Declare, row: None, depth });
                }
            }
        }
    }
    block(&p.stmts, 0, &mut lines);
    lines
}

/// Which layout freedoms the layout engine may use.
#[derive(Clone, Copy, Debug)]
pub struct LayoutOpts {
    /// blank lines before the header
    pub lead_blank: bool,
    /// blank / comment-only lines after the header
    pub insert_lines: bool,
    /// trailing `#` comments on lines after the header
    pub trailing_comments: bool,
    /// vary blank space between tokens (spaces, tabs, CR; removed where adjacency is safe)
    pub spacing: bool,
    /// CRLF line ends
    pub crlf: bool,
    /// rewrite literals in another radix
    pub reradix: bool,
    /// final newline may be absent
    pub drop_final_newline: bool,
    /// blank space on the header line may vary too
    pub header_spacing: bool,
    /// force the final newline to be present / absent (None: by choice if `drop_final_newline`)
    pub final_newline: Option<bool>,
    /// a carriage return right before the line feed of lines after the header (blank space
    /// between the last token of a line and the end of the line)
    pub cr_at_eol: bool,
    /// LF and CRLF line ends mixed line by line (all lines if `crlf`, lines after the header if
    /// `cr_at_eol`)
    pub mixed_eol: bool,
}

impl LayoutOpts {
    pub const CANON: LayoutOpts = LayoutOpts {
        lead_blank: false,
        insert_lines: false,
        trailing_comments: false,
        spacing: false,
        crlf: false,
        reradix: false,
        drop_final_newline: false,
        header_spacing: false,
        final_newline: None,
        cr_at_eol: false,
        mixed_eol: false,
    };
    pub const ALL: LayoutOpts = LayoutOpts {
        lead_blank: true,
        insert_lines: true,
        trailing_comments: true,
        spacing: true,
        crlf: true,
        reradix: true,
        drop_final_newline: true,
        header_spacing: true,
        final_newline: None,
        cr_at_eol: false,
        mixed_eol: true,
    };
    /// everything C20's statement lists (all after the header line)
    pub const AFTER_HEADER: LayoutOpts = LayoutOpts {
        lead_blank: false,
        insert_lines: true,
        trailing_comments: true,
        spacing: true,
        crlf: false,
        reradix: true,
        drop_final_newline: false,
        header_spacing: false,
        final_newline: None,
        cr_at_eol: true,
        mixed_eol: true,
    };
}

#[derive(Clone, Debug, Default)]
pub struct LayoutStats {
    pub lead_blank: usize,
    pub inserted_lines: usize,
    pub comment_lines: usize,
    pub trailing_comments: usize,
    pub tabs_or_cr: usize,
    pub removed_blanks: usize,
    pub wide_blanks: usize,
    pub reradixed: usize,
    /// places where the blank between a number and a following X / Z / C entry was removed
    pub num_xzc_sites: usize,
    pub crlf: bool,
    pub mixed_eol: bool,
    pub final_newline: bool,
}

impl LayoutStats {
    pub fn kinds(&self) -> usize {
        (self.lead_blank > 0) as usize
            + (self.inserted_lines > 0) as usize
            + (self.trailing_comments > 0) as usize
            + (self.tabs_or_cr > 0) as usize
            + (self.removed_blanks > 0) as usize
            + (self.wide_blanks > 0) as usize
            + (self.reradixed > 0) as usize
            + self.crlf as usize
            + (!self.final_newline) as usize
    }
}

#[derive(Clone, Debug)]
pub struct Rendered {
    pub text: String,
    /// 1-based line of each row id
    pub row_line: Vec<usize>,
    /// number of lines inserted above each row id (relative to the canonical layout)
    pub inserted_above: Vec<usize>,
    pub stats: LayoutStats,
}

const COMMENTS: [&str; 11] = [
    // a comment runs to the line feed: a carriage return in it is part of the comment
    "# was\r1 1",
    "#\r end loop",
    "# a \r\r( b",
    "#",
    "# c",
    "#end loop",
    "# 1 0 X",
    "#\tlet a = 1;",
    "## é 🦀",
    "# ) ( ;",
    "#loop(i,2)",
];

fn blank(ch: &mut Ch, st: &mut LayoutStats, allow_empty: bool) -> String {
    // alternative 0 is the canonical single space
    match ch.weighted(&[10, 3, 3, 2, 2, if allow_empty { 6 } else { 0 }]) {
        0 => " ".to_string(),
        1 => {
            st.wide_blanks += 1;
            "   ".to_string()
        }
        2 => {
            st.tabs_or_cr += 1;
            "\t".to_string()
        }
        3 => {
            st.tabs_or_cr += 1;
            " \r ".to_string()
        }
        4 => {
            st.tabs_or_cr += 1;
            "\t \t".to_string()
        }
        _ => {
            st.removed_blanks += 1;
            String::new()
        }
    }
}

fn reradix(v: u64, orig: Radix, ch: &mut Ch, st: &mut LayoutStats) -> String {
    let r = match ch.weighted(&[8, 2, 1, 1, 1, 2, 1, 2]) {
        0 => orig,
        1 => Radix::Dec,
        2 => Radix::Hex(false, false),
        3 => Radix::Hex(true, true),
        4 => Radix::Hex(false, true),
        5 => Radix::Bin(false),
        6 => Radix::Bin(true),
        _ => Radix::Oct,
    };
    if r != orig {
        st.reradixed += 1;
    }
    let t = fmt_num(v, r);
    // hexadecimal, binary and octal literals may carry any number of leading zeros
    if !matches!(r, Radix::Dec) && ch.chance(1, 5) {
        st.reradixed += 1;
        let pad = "0".repeat(*ch.choose(&[1usize, 2, 8, 17, 40, 70]));
        return match r {
            Radix::Oct => format!("0{pad}{}", &t[1..]),
            _ => format!("{}{pad}{}", &t[..2], &t[2..]),
        };
    }
    t
}

/// Render token lines to text. With an exhausted choice stream (or `LayoutOpts::CANON`) the
/// result is the canonical layout: single blanks between all tokens, LF, no comments, final
/// newline present.
pub fn render(lines: &[Line], ch: &mut Ch, opts: LayoutOpts) -> Rendered {
    let nrows = lines.iter().filter_map(|l| l.row).map(|r| r + 1).max().unwrap_or(0);
    let mut st = LayoutStats { final_newline: true, ..Default::default() };
    let mut text = String::new();
    let mut row_line = vec![0usize; nrows];
    let mut inserted_above = vec![0usize; nrows];
    let mut line_no = 1usize;
    let mut inserted = 0usize;
    let crlf = opts.crlf && ch.chance(1, 4);
    st.crlf = crlf;
    let eol = if crlf { "\r\n" } else { "\n" };
    // CR before LF on every line after the header (the header line itself stays as it is)
    let cr_body = !crlf && opts.cr_at_eol && ch.chance(1, 3);
    let body_eol = if cr_body { "\r\n" } else { eol };
    if cr_body {
        st.tabs_or_cr += 1;
        st.crlf = true;
    }
    // or the line end chosen line by line
    let mixed = opts.mixed_eol && (opts.crlf || opts.cr_at_eol) && !crlf && !cr_body && ch.chance(1, 4);
    let mixed_header = mixed && opts.crlf;
    let mut mixed_used = false;
    let mut pick = |ch: &mut Ch, fixed: &'static str, on: bool| -> &'static str {
        if on && ch.chance(1, 2) {
            mixed_used = true;
            "\r\n"
        } else if on {
            "\n"
        } else {
            fixed
        }
    };

    if opts.lead_blank {
        let n = ch.weighted(&[6, 2, 1, 1, 1]);
        for _ in 0..n {
            if ch.chance(1, 3) {
                text.push_str("  \t");
            }
            text.push_str(pick(ch, eol, mixed_header));
            line_no += 1;
            inserted += 1;
        }
        st.lead_blank = n;
    }

    for (li, line) in lines.iter().enumerate() {
        let is_header = line.kind == LineKind::Header;
        if !is_header && opts.insert_lines {
            // blank / comment-only lines above this line
            let n = ch.weighted(&[12, 3, 1, 1]);
            for _ in 0..n {
                if ch.chance(1, 2) {
                    if ch.chance(1, 3) {
                        text.push_str("  ");
                    }
                    text.push_str(COMMENTS[ch.upto(COMMENTS.len())]);
                    st.comment_lines += 1;
                } else if ch.chance(1, 3) {
                    text.push_str(" \t ");
                }
                text.push_str(pick(ch, body_eol, mixed));
                line_no += 1;
                inserted += 1;
                st.inserted_lines += 1;
            }
        }
        let vary = if is_header { opts.header_spacing } else { opts.spacing };
        // leading blank space on the line
        if vary && ch.chance(1, 5) {
            text.push_str(if ch.chance(1, 2) { "  " } else { "\t" });
        }
        let mut prev_rendered = String::new();
        for (ti, t) in line.toks.iter().enumerate() {
            if ti > 0 {
                let prev = &line.toks[ti - 1];
                let wordlike = |t: &Tok| !matches!(t.class, TokClass::Sym);
                // a number directly followed by an X / Z / C entry lexes as the same two tokens
                // (`0X`, `12z`, `0b1C`), except that C is a digit after a hex literal
                let num_then_xzc = matches!(prev.class, TokClass::Num(..))
                    && t.class == TokClass::Word
                    && match t.text.as_str() {
                        "X" | "x" | "Z" | "z" => true,
                        "C" | "c" => !(prev_rendered.starts_with("0x") || prev_rendered.starts_with("0X")),
                        _ => false,
                    };
                // otherwise a blank is always kept between two word-like tokens
                let must = wordlike(prev) && wordlike(t) && !num_then_xzc;

                if vary {
                    // (a number glued to the X / Z / C entry behind it is a rare and telling shape:
                    // half of these sites lose their blank)
                    let b = if num_then_xzc && !is_header && ch.chance(1, 2) {
                        st.removed_blanks += 1;
                        String::new()
                    } else {
                        blank(ch, &mut st, !must && !is_header)
                    };
                    if num_then_xzc && b.is_empty() {
                        st.num_xzc_sites += 1;
                    }
                    text.push_str(&b);
                } else {
                    text.push(' ');
                }
            }
            prev_rendered = match &t.class {
                TokClass::Num(v, r) if opts.reradix && !is_header => reradix(*v, *r, ch, &mut st),
                _ => t.text.clone(),
            };
            text.push_str(&prev_rendered);
        }
        if let Some(r) = line.row {
            row_line[r] = line_no;
            inserted_above[r] = inserted;
        }
        if !is_header {
            if vary && ch.chance(1, 6) {
                text.push_str(if ch.chance(1, 2) { " " } else { "\t\t" });
            }
            if opts.trailing_comments && ch.chance(1, 6) {
                text.push_str(COMMENTS[ch.upto(COMMENTS.len())]);
                st.trailing_comments += 1;
            }
        } else if vary && ch.chance(1, 6) {
            text.push_str(" \t");
        }
        let last = li + 1 == lines.len();
        let drop_nl = last
            && match opts.final_newline {
                Some(keep) => !keep,
                None => lines.len() > 1 && opts.drop_final_newline && ch.chance(1, 3),
            };
        if drop_nl {
            st.final_newline = false;
        } else {
            text.push_str(if is_header { pick(ch, eol, mixed_header) } else { pick(ch, body_eol, mixed) });
            line_no += 1;
        }
    }
    if opts.insert_lines && st.final_newline {
        // trailing blank / comment lines at the very end
        let n = ch.weighted(&[10, 2, 1]);
        for _ in 0..n {
            if ch.chance(1, 2) {
                text.push_str(COMMENTS[ch.upto(COMMENTS.len())]);
                st.comment_lines += 1;
            }
            text.push_str(pick(ch, body_eol, mixed));
            st.inserted_lines += 1;
        }
    }
    if mixed_used {
        st.crlf = true;
        st.mixed_eol = true;
    }
    Rendered { text, row_line, inserted_above, stats: st }
}

pub fn canonical(p: &Program) -> Rendered {
    render(&program_lines(p), &mut Ch::new(&[]), LayoutOpts::CANON)
}

pub fn expr_text(e: &Expr) -> String {
    let mut t = vec![];
    expr_toks(e, &mut t);
    t.iter().map(|t| t.text.as_str()).collect::<Vec<_>>().join(" ")
}
