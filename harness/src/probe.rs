//! Self-consistent instrumentation of generated programs (DESIGN 8.4b): every row statement
//! gets a tag (which source row is this item from?) and probe inputs `(name)`; an independent
//! static scope analysis of the generating program says, per source row, which variables are
//! definitely / possibly in scope, and the row's shape says how its items must be grouped.
//! Checks built on this need no reference values, so changes elsewhere in the crate that only
//! move values around or change which rows run cannot disturb them.

use std::collections::{BTreeMap, BTreeSet};

use crate::choice::Ch;
use crate::gen::*;
use crate::model::*;

#[derive(Clone, Debug, Default)]
pub struct RowInfo {
    /// definitely bound when the row is evaluated (on every execution)
    pub definite: BTreeSet<String>,
    /// possibly bound: everything a `let` binds anywhere at the level of an enclosing frame
    /// (while bodies included) plus the counters of the enclosing loops
    pub possible: BTreeSet<String>,
    /// what each probe column reads
    pub probes: Vec<Option<String>>,
    pub depth: usize,
    pub after_loop: bool,
    pub shadowed: bool,
    /// items per evaluation of the row: 2^(#X in input-bound columns) x (3 if it has C else 1)
    pub group: usize,
    /// header names of input-bound columns holding X, left to right
    pub xs: Vec<String>,
    /// header names of columns holding C
    pub cs: Vec<String>,
    /// expected columns (by signal name) whose entry is a literal X or Z
    pub literal_expected: Vec<(String, ExpVal)>,
    /// every header column whose entry is a literal number, X or Z: (header name, value)
    pub literal_cols: Vec<(String, ExpVal)>,
    /// header columns whose entry is a parenthesised expression over literals only: (name, value)
    pub constant_cols: Vec<(String, i64)>,
    pub is_repeat: bool,
}

#[derive(Clone, Copy, Debug, PartialEq, Eq)]
pub enum ProbePref {
    /// probe variables that are definitely in scope
    Vars,
    /// probe device outputs (names that cannot be variables there), else shadowing variables
    Device,
}

/// names bound by `let` at the level of this frame (while bodies included, loop bodies not)
pub fn frame_lets(b: &[Stmt], out: &mut BTreeSet<String>) {
    for s in b {
        match s {
            Stmt::Let(n, _) => {
                out.insert(n.clone());
            }
            Stmt::While(_, inner) => frame_lets(inner, out),
            _ => {}
        }
    }
}

struct Cx<'a, 'b> {
    ch: &'a mut Ch<'b>,
    rows: &'a mut BTreeMap<usize, RowInfo>,
    nprobes: usize,
    pref: ProbePref,
    readable: &'a [String],
    /// every name some `let` / loop / repeat of the program binds, anywhere
    bound_anywhere: BTreeSet<String>,
}

#[allow(clippy::too_many_arguments)]
fn do_row(
    id: usize,
    es: &mut Vec<Entry>,
    definite: &BTreeSet<String>,
    possible: &BTreeSet<String>,
    frames: &[BTreeSet<String>],
    depth: usize,
    after_loop: bool,
    is_repeat: bool,
    cx: &mut Cx,
) {
    let vars: Vec<&String> = definite.iter().collect();
    // device outputs that cannot be a variable at this row
    let pure_device: Vec<&String> = cx.readable.iter().filter(|n| !possible.contains(*n)).collect();
    // variables that shadow a device output of the same name
    let shadowing: Vec<&String> = definite.iter().filter(|n| cx.readable.contains(n)).collect();
    let mut probes = vec![];
    for k in 0..cx.nprobes {
        let pool: Vec<&String> = match cx.pref {
            ProbePref::Vars => vars.clone(),
            ProbePref::Device => {
                // device names that are a variable elsewhere in the program (in a loop that
                // has ended, in another branch) are the interesting ones: prefer them
                let elsewhere: Vec<&String> = pure_device.iter().copied().filter(|n| cx.bound_anywhere.contains(*n)).collect();
                if !shadowing.is_empty() && cx.ch.chance(1, 3) {
                    shadowing.clone()
                } else if !elsewhere.is_empty() && cx.ch.chance(1, 2) {
                    elsewhere
                } else {
                    pure_device.clone()
                }
            }
        };
        if pool.is_empty() {
            es.insert(k, Entry::Num(0, Radix::Dec));
            probes.push(None);
        } else {
            let v = pool[cx.ch.upto(pool.len())].clone();
            es.insert(k, Entry::Paren(Expr::Var(v.clone())));
            probes.push(Some(v));
        }
    }
    es.insert(0, Entry::Num(id as u64 + 1, Radix::Dec));
    let shadowed = definite.iter().any(|n| frames.iter().filter(|f| f.contains(n)).count() >= 2);
    cx.rows.insert(
        id,
        RowInfo { definite: definite.clone(), possible: possible.clone(), probes, depth, after_loop, shadowed, is_repeat, ..Default::default() },
    );
}

fn block(
    bl: &mut [Stmt],
    definite: &mut BTreeSet<String>,
    possible: &BTreeSet<String>,
    frames: &mut Vec<BTreeSet<String>>,
    depth: usize,
    cx: &mut Cx,
) {
    let mut after_loop = false;
    for s in bl {
        match s {
            Stmt::Let(n, _) => {
                definite.insert(n.clone());
                frames.last_mut().unwrap().insert(n.clone());
            }
            Stmt::Row(id, es) => do_row(*id, es, definite, possible, frames, depth, after_loop, false, cx),
            Stmt::Repeat(_, id, es) => {
                let mut d = definite.clone();
                d.insert("n".into());
                let mut p = possible.clone();
                p.insert("n".into());
                frames.push(["n".to_string()].into_iter().collect());
                do_row(*id, es, &d, &p, frames, depth + 1, after_loop, true, cx);
                frames.pop();
                after_loop = true;
            }
            Stmt::Loop(v, _, inner) => {
                let mut d = definite.clone();
                d.insert(v.clone());
                let mut p = possible.clone();
                p.insert(v.clone());
                frame_lets(inner, &mut p);
                frames.push([v.clone()].into_iter().collect());
                block(inner, &mut d, &p, frames, depth + 1, cx);
                frames.pop();
                after_loop = true;
            }
            Stmt::While(_, inner) => {
                // no scope of its own; what it binds is not definite afterwards
                let mut d = definite.clone();
                let saved = frames.last().unwrap().clone();
                block(inner, &mut d, possible, frames, depth, cx);
                *frames.last_mut().unwrap() = saved;
            }
            Stmt::ResetRandom | Stmt::Declare(..) => {}
        }
    }
}

/// Tag every row, add `nprobes` probe columns, compute scope sets and row shapes.
/// Signals TAG (32-bit input) and PR0.. (64-bit inputs) are put in front of list and header.
pub fn instrument(b: &mut Built, ch: &mut Ch, nprobes: usize, pref: ProbePref, readable: &[String]) -> BTreeMap<usize, RowInfo> {
    b.sigs.insert(0, Sig { name: "TAG".into(), bits: 32, kind: Kind::In(InVal::Val(0)) });
    b.prog.header.insert(0, "TAG".into());
    for k in 0..nprobes {
        b.sigs.insert(1 + k, Sig { name: format!("PR{k}"), bits: 64, kind: Kind::In(InVal::Val(0)) });
        b.prog.header.insert(1 + k, format!("PR{k}"));
    }
    let mut rows = BTreeMap::new();
    let mut possible = BTreeSet::new();
    frame_lets(&b.prog.stmts, &mut possible);
    let mut definite = BTreeSet::new();
    let mut frames = vec![BTreeSet::new()];
    let mut bound_anywhere = BTreeSet::new();
    b.prog.visit_stmts(&mut |s, _| match s {
        Stmt::Let(n, _) | Stmt::Loop(n, _, _) => {
            bound_anywhere.insert(n.clone());
        }
        Stmt::Repeat(..) => {
            bound_anywhere.insert("n".to_string());
        }
        _ => {}
    });
    {
        let mut cx = Cx { ch, rows: &mut rows, nprobes, pref, readable, bound_anywhere };
        block(&mut b.prog.stmts, &mut definite, &possible, &mut frames, 0, &mut cx);
    }
    b.cols = col_roles(&b.prog.header, &b.sigs);
    b.analysis = analyse(&b.prog);
    // row shapes
    let header = b.prog.header.clone();
    let cols = b.cols.clone();
    let sigs = b.sigs.clone();
    b.prog.visit_stmts(&mut |s, _| {
        if let Stmt::Row(id, es) | Stmt::Repeat(_, id, es) = s {
            let Some(info) = rows.get_mut(id) else { return };
            let mut col = 0usize;
            for e in es {
                match e {
                    Entry::X(_) if cols[col].role != ColRole::ExpectedOnly => info.xs.push(header[col].clone()),
                    Entry::C(_) => info.cs.push(header[col].clone()),
                    _ => {}
                }
                match e {
                    Entry::X(_) => info.literal_cols.push((header[col].clone(), ExpVal::X)),
                    Entry::Z(_) => info.literal_cols.push((header[col].clone(), ExpVal::Z)),
                    Entry::Num(v, _) => info.literal_cols.push((header[col].clone(), ExpVal::Val(*v as i64))),
                    // a parenthesised expression over literals only is as good as a literal
                    Entry::Paren(ex) => {
                        let mut constant = true;
                        ex.visit(&mut |x| constant &= !matches!(x, Expr::Var(_) | Expr::Random(_) | Expr::SignExt(..)));
                        if constant {
                            let empty = BTreeMap::new();
                            if let Ok(v) = crate::ri::eval_expr(ex, &mut crate::ri::MapResolver { vars: None, outs: &empty }) {
                                info.constant_cols.push((header[col].clone(), v));
                            }
                        }
                    }
                    _ => {}
                }
                if matches!(e, Entry::X(_) | Entry::Z(_)) && cols[col].role == ColRole::ExpectedOnly {
                    // which signal's expected value is this column?
                    if let Some(sg) = sigs.iter().find(|sg| sg.expected_col().as_deref() == Some(header[col].as_str())) {
                        info.literal_expected.push((sg.name.clone(), if matches!(e, Entry::X(_)) { ExpVal::X } else { ExpVal::Z }));
                    }
                }
                col += e.width();
            }
            info.group = (1usize << info.xs.len()) * if info.cs.is_empty() { 1 } else { 3 };
        }
    });
    rows
}

/// Position of every item within the evaluation of its source row.
/// `tags[i]` is the tag of item i if it is a row, None if it is an error item (which still
/// occupies its position in the expansion it interrupted). Returns, per item, (row id,
/// position within the evaluation) where that can be told.
pub fn positions(tags: &[Option<i64>], rows: &BTreeMap<usize, RowInfo>) -> Vec<Option<(usize, usize)>> {
    let mut out = vec![None; tags.len()];
    let mut i = 0;
    while i < tags.len() {
        // the evaluation starting at i takes its tag from the first row among its items; an
        // evaluation that starts with an error item cannot be told apart from a single error
        let Some(tag) = tags[i] else {
            i += 1;
            continue;
        };
        let Some(info) = rows.get(&((tag - 1) as usize)) else {
            i += 1;
            continue;
        };
        let g = info.group.max(1);
        let mut p = 0;
        while p < g && i + p < tags.len() {
            match tags[i + p] {
                Some(t) if t != tag => break,
                Some(_) => out[i + p] = Some(((tag - 1) as usize, p)),
                None => {}
            }
            p += 1;
        }
        i += p.max(1);
    }
    out
}
