//! Generator-side model of a Digital `.dig` document, its XML rendering (XStream shape) and
//! the circuit interface the C16 statement prescribes for it.

use crate::choice::Ch;
use crate::model::*;

#[derive(Clone, Debug, PartialEq, Eq)]
pub enum PinKind {
    In,
    Clock,
    Out,
}

#[derive(Clone, Debug, PartialEq, Eq)]
pub struct Pin {
    pub kind: PinKind,
    pub label: Option<String>,
    pub bits: Option<usize>,
    /// (v attribute, z attribute) of the InDefault entry
    pub default: Option<(Option<i64>, Option<bool>)>,
}

#[derive(Clone, Debug, PartialEq, Eq)]
pub struct DigTest {
    pub label: Option<String>,
    pub source: String,
}

#[derive(Clone, Debug, PartialEq, Eq)]
pub enum Element {
    Pin(Pin),
    /// a non-pin element that carries a label-like attribute
    Noise { element: &'static str, label: Option<String>, bits: Option<usize> },
    Test(DigTest),
}

#[derive(Clone, Debug, PartialEq, Eq)]
pub struct DigDoc {
    pub elements: Vec<Element>,
}

pub fn xml_escape(s: &str) -> String {
    let mut o = String::new();
    for c in s.chars() {
        match c {
            '&' => o.push_str("&amp;"),
            '<' => o.push_str("&lt;"),
            '>' => o.push_str("&gt;"),
            '"' => o.push_str("&quot;"),
            '\r' => o.push_str("&#13;"),
            c => o.push(c),
        }
    }
    o
}

fn entry(out: &mut Vec<String>, key: &str, value_xml: String) {
    out.push(format!("        <entry>\n          <string>{key}</string>\n          {value_xml}\n        </entry>\n"));
}

impl DigDoc {
    pub fn render(&self, ch: &mut Ch) -> String {
        let mut x = String::from("<?xml version=\"1.0\" encoding=\"utf-8\"?>\n<circuit>\n  <version>2</version>\n  <attributes/>\n  <visualElements>\n");
        for (k, e) in self.elements.iter().enumerate() {
            let mut entries: Vec<String> = vec![];
            let name = match e {
                Element::Pin(p) => {
                    if let Some(l) = &p.label {
                        entry(&mut entries, "Label", format!("<string>{}</string>", xml_escape(l)));
                    }
                    if let Some(b) = p.bits {
                        entry(&mut entries, "Bits", format!("<int>{b}</int>"));
                    }
                    if let Some((v, z)) = &p.default {
                        let mut a = String::new();
                        if let Some(v) = v {
                            a.push_str(&format!(" v=\"{v}\""));
                        }
                        if let Some(z) = z {
                            a.push_str(&format!(" z=\"{z}\""));
                        }
                        entry(&mut entries, "InDefault", format!("<value{a}/>"));
                        if *z == Some(true) {
                            entry(&mut entries, "isHighZ", "<boolean>true</boolean>".into());
                        }
                    }
                    if ch.chance(1, 3) {
                        entry(&mut entries, "pinNumber", format!("<string>{}</string>", k + 1));
                    }
                    match p.kind {
                        PinKind::In => "In",
                        PinKind::Clock => {
                            if ch.chance(1, 2) {
                                entry(&mut entries, "Frequency", "<int>2</int>".into());
                            }
                            "Clock"
                        }
                        PinKind::Out => "Out",
                    }
                }
                Element::Noise { element, label, bits } => {
                    if let Some(l) = label {
                        entry(&mut entries, "Label", format!("<string>{}</string>", xml_escape(l)));
                    }
                    if let Some(b) = bits {
                        entry(&mut entries, "Bits", format!("<int>{b}</int>"));
                    }
                    element
                }
                Element::Test(t) => {
                    if let Some(l) = &t.label {
                        entry(&mut entries, "Label", format!("<string>{}</string>", xml_escape(l)));
                    }
                    entry(
                        &mut entries,
                        "Testdata",
                        format!("<testData>\n            <dataString>{}</dataString>\n          </testData>", xml_escape(&t.source)),
                    );
                    "Testcase"
                }
            };
            // XStream writes a map: the order of the entries carries no meaning
            let p = ch.permutation(entries.len());
            x.push_str("    <visualElement>\n");
            x.push_str(&format!("      <elementName>{name}</elementName>\n"));
            if entries.is_empty() {
                x.push_str("      <elementAttributes/>\n");
            } else {
                x.push_str("      <elementAttributes>\n");
                for i in p {
                    x.push_str(&entries[i]);
                }
                x.push_str("      </elementAttributes>\n");
            }
            x.push_str(&format!("      <pos x=\"{}\" y=\"{}\"/>\n", 20 * k as i64 - 100, 40 * k));
            x.push_str("    </visualElement>\n");
        }
        x.push_str("  </visualElements>\n  <wires>\n    <wire>\n      <p1 x=\"0\" y=\"0\"/>\n      <p2 x=\"20\" y=\"0\"/>\n    </wire>\n  </wires>\n  <measurementOrdering/>\n</circuit>\n");
        x
    }

    pub fn pins(&self) -> Vec<&Pin> {
        self.elements.iter().filter_map(|e| if let Element::Pin(p) = e { Some(p) } else { None }).collect()
    }
    pub fn tests(&self) -> Vec<&DigTest> {
        self.elements.iter().filter_map(|e| if let Element::Test(t) = e { Some(t) } else { None }).collect()
    }

    /// header names of a test source by the grammar: first non-blank line, split at blanks
    pub fn header_of(source: &str) -> Option<Vec<String>> {
        let parts: Vec<&str> = source.split('\n').collect();
        for (i, line) in parts.iter().enumerate() {
            let names: Vec<String> = line
                .split(|c| c == ' ' || c == '\t' || c == '\r' || c == '\u{c}')
                .filter(|s| !s.is_empty())
                .map(|s| s.to_string())
                .collect();
            if !names.is_empty() {
                // the header must be followed by a line break
                return if i + 1 < parts.len() { Some(names) } else { None };
            }
        }
        None
    }

    pub fn labels_distinct(&self) -> bool {
        let l: Vec<&String> = self.pins().iter().filter_map(|p| p.label.as_ref()).collect();
        (0..l.len()).all(|i| !l[..i].contains(&l[i]))
    }

    /// the circuit interface the statement prescribes (labels must be distinct)
    pub fn expected_signals(&self) -> Vec<Sig> {
        let mut sigs: Vec<Sig> = vec![];
        for p in self.pins() {
            let Some(l) = &p.label else { continue };
            let bits = p.bits.unwrap_or(1);
            let kind = match p.kind {
                PinKind::Out => Kind::Out,
                PinKind::In | PinKind::Clock => Kind::In(match &p.default {
                    Some((_, Some(true))) => InVal::Z,
                    Some((Some(v), _)) => InVal::Val(*v),
                    _ => InVal::Val(0),
                }),
            };
            sigs.push(Sig { name: l.clone(), bits, kind });
        }
        // bidirectional only when a header uses <name>_out, <name> is an input, and no pin is
        // itself labelled <name>_out
        for t in self.tests() {
            let Some(h) = Self::header_of(&t.source) else { continue };
            for name in h {
                if let Some(stem) = name.strip_suffix("_out") {
                    if sigs.iter().any(|s| s.name == name) {
                        continue;
                    }
                    if let Some(s) = sigs.iter_mut().find(|s| s.name == stem) {
                        if let Kind::In(d) = s.kind {
                            s.kind = Kind::Bidir(d);
                        }
                    }
                }
            }
        }
        sigs
    }

    /// every header name is a pin label or `<input label>_out` (with no pin labelled so)
    pub fn headers_legal(&self) -> bool {
        let pins = self.pins();
        let has = |n: &str| pins.iter().any(|p| p.label.as_deref() == Some(n));
        let is_input = |n: &str| pins.iter().any(|p| p.label.as_deref() == Some(n) && p.kind != PinKind::Out);
        self.tests().iter().all(|t| match Self::header_of(&t.source) {
            None => false,
            Some(h) => h.iter().all(|n| has(n) || n.strip_suffix("_out").map(|s| is_input(s)).unwrap_or(false)),
        })
    }
}
