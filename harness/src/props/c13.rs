//! C13 - driver failures and contract violations surface as errors, never as wrong rows.

use crate::choice::Ch;
use crate::device::*;
use crate::engine::*;
use crate::gen::*;
use crate::props::c05::expansion_cfg;
use crate::props::common::*;
use crate::real::*;

pub struct C13;

impl Property for C13 {
    fn id(&self) -> &'static str {
        "C13"
    }
    fn rule(&self) -> &'static str {
        "profile `faults`: total programs with clock rows, both driver types, subset/permuted output layouts (in one case in sixteen a first answer without any entry, to which a later answer adds one), and either a failure plan (call index j counted over all calls the driver sees, constructor = 0, write-only calls included; the error carries a unique id) or a deviation plan (at the output-reading call of a checked row: drop, add, duplicate in place, swap two, substitute another output-capable signal, a same-named signal of different width, or two of the driver's own Signal objects swapped in place so that the entries keep their addresses but name each other's signal). In a third of the cases another iterator over the same TestCase has run before against a driver listing the same outputs in another order. Oracle (metamorphic against the fault-free real run of the same test and script): j = 0 => try_iter returns Err(Driver(e)) with that id; otherwise all items before the failing call are equal and the item whose call failed is Err(Driver(e)) with that id; deviation => that item is an error, earlier items equal, and no later row is produced from the deviating answer; every row statement carries two probe inputs `(P)` reading device outputs, and in the row evaluated right after the deviating call a probe shows what the driver reported for P itself in that call, never another signal's value. Non-trivial: j >= 1, or a deviation on a layout of >= 2 signals; distinct by source + signals + driver + plan."
    }
    fn cases(&self, tier: Tier) -> u64 {
        match tier {
            Tier::Quick => 48000,
            Tier::Thorough => 48000 * 100,
        }
    }
    fn required_classes(&self) -> Vec<&'static str> {
        vec!["fail-at-ctor", "fail-at-checked-row", "fail-at-mid-clock-write", "dev:drop", "dev:add", "dev:duplicate", "dev:swap", "dev:substitute", "dev:rewidth", "dev:swap-in-place", "dev:unknown-signal-added", "answer-of-more-than-64-entries", "overriding-driver", "defaulting-driver", "row-after-deviation-checked", "probe-after-deviation-checked", "first-answer-without-entries", "another-iterator-with-another-layout-ran-before"]
    }
    fn run(&self, s: &Streams) -> CaseOut {
        let mut out = CaseOut::new();
        out.owns_panics = true;
        let mut cfg = expansion_cfg();
        cfg.allow_input_x = false;
        cfg.omit_cols = true;
        cfg.max_x = 2;
        cfg.n_out = (1, 4);
        cfg.device_whiles = false;
        let mut dch = Ch::new(&s[2]);
        // One case in forty: a device with 66-72 one-bit outputs (the test's header names none of them), three rows, and an
        // answer to the second row's call in which two entries at positions 64 and up have traded places (or one of them
        // names another signal): a different order than in the first answer, however far back in the answer.
        if dch.chance(1, 40) {
            use crate::model::*;
            out.class("answer-of-more-than-64-entries");
            let n = 66 + dch.upto(7);
            let mut sigs = vec![Sig { name: "A".into(), bits: 1, kind: Kind::In(InVal::Val(0)) }];
            for k in 0..n {
                sigs.push(Sig { name: format!("O{k}"), bits: 1, kind: Kind::Out });
            }
            let prog = Program { header: vec!["A".into()], stmts: (0..3).map(|i| Stmt::Row(i, vec![Entry::Num((i % 2) as u64, Radix::Dec)])).collect() };
            let text = crate::print::canonical(&prog).text;
            let mut spec = DriverSpec::honest(&sigs, dch.u64(), Palette::Bit);
            let p = 64 + dch.upto(n - 64);
            let mut q = 64 + dch.upto(n - 64);
            if q == p {
                q = if p + 1 < n { p + 1 } else { p - 1 };
            }
            spec.deviate_at = Some((2, if dch.chance(1, 2) { Deviation::Swap(p, q) } else { Deviation::Substitute(p, spec.layout[q]) }));
            render_case(&mut out, &text, &sigs, Some(&spec));
            out.nontrivial = true;
            let Some(tc) = load_wellformed(&mut out, "c13", &text, &sigs) else { return out };
            let real = run_real(&tc, &sigs, &spec, &RunOpts { max_next: 5, continue_after_error: true, ..Default::default() });
            match (real.ctor.as_ref(), real.items.first(), real.items.get(1)) {
                (None, Some(RealItem::Row(_)), Some(RealItem::RuntimeErr(_))) => {}
                (_, _, Some(RealItem::Panic(pn))) | (_, Some(RealItem::Panic(pn)), _) | (Some(RealItem::Panic(pn)), _, _) => out.fail(pn.key(), format!("panicked: {pn}")),
                (None, Some(RealItem::Row(_)), other) if real.log.len() >= 3 && real.log[2].deviated => out.fail(
                    "c13:deviation-not-an-error",
                    format!("a device with {n} outputs: in the answer to the second row's call the entries at positions {p} and {q} differ from the first answer (a different order); that row must be an error, got {:?}", other.map(|x| x.short())),
                ),
                _ => out.discard("fault-free-run-not-clean"),
            }
            return out;
        }
        // one case in eight reads nothing from the device; in half of those the driver's first
        // answer has no entries at all (a later answer that has one is a different number)
        let reads_nothing = dch.chance(1, 8);
        if reads_nothing {
            cfg.reads = false;
        }
        // a third of the tests declare one or two virtual signals (evaluated after the order check of every checked row:
        // their success must not hide a failed order check)
        if dch.chance(1, 3) {
            cfg.max_virtual = 2;
            cfg.min_virtual = 1;
        }
        // a third of the tests hold rows with don't-care inputs: the order check applies to the answer given to every
        // one of the rows such a row expands into, not to the first only
        if dch.chance(1, 3) {
            cfg.allow_input_x = true;
        }
        let mut built = gen_case(&mut Ch::new(&s[0]), &cfg);
        // now and then an output has a twin whose name differs in the case of its letters only (same width, no column
        // of its own): two signals all the same - an answer that lists them the other way round is another order
        if dch.chance(1, 6) {
            use crate::model::*;
            if let Some(o) = built.sigs.iter().find(|s| matches!(s.kind, Kind::Out) && is_ident(&s.name) && s.name.to_lowercase() != s.name).cloned() {
                let twin = o.name.to_lowercase();
                if !built.sigs.iter().any(|s| s.name == twin) && !built.prog.header.contains(&twin) && !built.analysis.virtuals.contains(&twin) {
                    let at = dch.upto(built.sigs.len() + 1);
                    built.sigs.insert(at, Sig { name: twin, bits: o.bits, kind: Kind::Out });
                    built.cols = col_roles(&built.prog.header, &built.sigs);
                    out.class("outputs-differing-in-letter-case-only");
                }
            }
        }
        // every row statement carries a tag and two probe inputs `(P)` reading device outputs
        let readable: Vec<String> =
            built.sigs.iter().filter(|s| s.is_output() && is_ident(&s.name)).map(|s| s.name.clone()).collect();
        let rows = crate::probe::instrument(&mut built, &mut Ch::new(&s[1]), if reads_nothing { 0 } else { 2 }, crate::probe::ProbePref::Device, &readable);
        let text = built_text(&built);
        let mut spec0 = gen_spec(
            &mut dch,
            &built.sigs,
            &SpecCfg { palette: Palette::Small, zx: 0, free_layout: true, must_supply: built.must_supply(), both_driver_types: true },
        );
        // one case in twenty-four: every answer of the driver ends with an entry for a signal the test
        // does not know. Whatever that does to the fault-free run (if it is not clean the case is
        // discarded below) - a later answer that has a signal of the test in that place is a
        // different answer
        let foreign = dch.chance(1, 24);
        if foreign {
            spec0.foreign = true;
            out.class("driver-reports-an-unknown-signal");
        }
        let empty_layout = !foreign && reads_nothing && built.analysis.reads.is_empty() && dch.chance(1, 2);
        if empty_layout {
            spec0.layout.clear();
            out.class("first-answer-without-entries");
        }
        out.class(if spec0.override_write { "overriding-driver" } else { "defaulting-driver" });
        let Some(tc) = load_wellformed(&mut out, "c13", &text, &built.sigs) else {
            render_case(&mut out, &text, &built.sigs, Some(&spec0));
            return out;
        };
        // termination guard
        let t = crate::ri::run(&built.prog, &built.sigs, &spec0, &crate::ri::RiOpts::default());
        if matches!(t.end, crate::ri::RiEnd::StepCap) {
            render_case(&mut out, &text, &built.sigs, Some(&spec0));
            out.discard("step-cap");
            return out;
        }
        let opts = RunOpts { max_next: 200, fuel: fuel_for(t.facts.steps), ..Default::default() };
        // in a third of the cases another iterator over the same test has run before, against a
        // driver that lists the same outputs in another order: nothing of it may carry over
        if spec0.layout.len() >= 2 && dch.chance(1, 3) {
            let mut pre = spec0.clone();
            let n = pre.layout.len();
            pre.layout.rotate_left(1 + dch.upto(n - 1));
            out.class("another-iterator-with-another-layout-ran-before");
            let _ = run_real(&tc, &built.sigs, &pre, &RunOpts { max_next: 1 + dch.upto(4), fuel: opts.fuel, ..Default::default() });
        }
        let base = run_real(&tc, &built.sigs, &spec0, &opts);
        if base.ctor.is_some() || base.items.iter().any(|i| !matches!(i, RealItem::Row(_))) {
            // the fault-free run must be clean in this profile; anything else is C01/C10's business
            render_case(&mut out, &text, &built.sigs, Some(&spec0));
            if let Some(RealItem::Panic(p)) = base.ctor.as_ref().or(base.items.last()) {
                out.fail(p.key(), format!("fault-free run panicked: {p}"));
            } else {
                out.discard("fault-free-run-not-clean");
            }
            return out;
        }
        // this check relies on "every item makes exactly one driver call" (C02); if the crate
        // does not keep to that in the fault-free run, which call belongs to which item is
        // anybody's guess
        if base.log.len() != 1 + base.items.len() {
            render_case(&mut out, &text, &built.sigs, Some(&spec0));
            out.discard("call-protocol-broken-in-fault-free-run");
            return out;
        }
        let mut spec = spec0.clone();
        let ncalls = base.log.len();
        let use_deviation = (!spec.layout.is_empty() || empty_layout) && dch.chance(1, 2);
        // items (index) whose row is checked
        let checked: Vec<usize> = base
            .items
            .iter()
            .enumerate()
            .filter(|(_, i)| matches!(i, RealItem::Row(r) if !r.outputs.is_empty()))
            .map(|(k, _)| k)
            .collect();
        if use_deviation && !checked.is_empty() {
            let k = checked[dch.upto(checked.len())];
            // index (among output-reading calls as seen by the driver) of the call made for item k
            let c = k + 1; // every item makes exactly one call; the constructor made call 0
            let n = spec.layout.len();
            let outs: Vec<usize> = (0..built.sigs.len()).filter(|i| built.sigs[*i].is_output()).collect();
            let p = if n == 0 { 0 } else { dch.upto(n) };
            let dev = match if foreign && !outs.is_empty() { 7 } else if n == 0 { 1 } else { dch.upto(8) } {
                7 if foreign => Deviation::ForeignReplaced(outs[dch.upto(outs.len())]),
                // (an answer that is longer than the first by an entry for a signal the test does not know)
                7 => Deviation::AddForeign,
                6 if n >= 2 => {
                    let mut q = dch.upto(n);
                    if q == p {
                        q = (p + 1) % n;
                    }
                    Deviation::SwapInPlace(p, q)
                }
                0 => Deviation::Drop(p),
                1 => Deviation::Add(outs[dch.upto(outs.len())]),
                2 => Deviation::Duplicate(p),
                3 if n >= 2 => {
                    let mut q = dch.upto(n);
                    if q == p {
                        q = (p + 1) % n;
                    }
                    Deviation::Swap(p, q)
                }
                4 if outs.len() >= 2 => {
                    let mut s2 = outs[dch.upto(outs.len())];
                    if s2 == spec.layout[p] {
                        s2 = *outs.iter().find(|o| **o != spec.layout[p]).unwrap();
                    }
                    Deviation::Substitute(p, s2)
                }
                _ => Deviation::Rewidth(p),
            };
            out.class(match dev {
                Deviation::Drop(_) => "dev:drop",
                Deviation::Add(_) => "dev:add",
                Deviation::Duplicate(_) => "dev:duplicate",
                Deviation::Swap(..) => "dev:swap",
                Deviation::Substitute(..) => "dev:substitute",
                Deviation::Rewidth(_) => "dev:rewidth",
                Deviation::SwapInPlace(..) => "dev:swap-in-place",
                Deviation::ForeignReplaced(_) => "dev:unknown-signal-replaced",
                Deviation::AddForeign => "dev:unknown-signal-added",
            });
            spec.deviate_at = Some((c, dev));
            // in half of the cases the same deviation happens again in the call of a later checked item: the caller
            // has gone on after the first error, and that row is an error just as well ("a different number or order
            // than in its FIRST answer" - not: than in its latest)
            let later: Vec<usize> = checked.iter().copied().filter(|i| *i > k).collect();
            if !later.is_empty() && dch.chance(1, 2) {
                spec.deviate_again = Some(later[dch.upto(later.len())] + 1);
                out.class("deviation-repeated-at-a-later-checked-row");
            }
            render_case(&mut out, &text, &built.sigs, Some(&spec));
            out.nontrivial = n >= 2;
            // the caller keeps iterating after the error item: "no row that is returned EVER
            // attributes to a signal a value the driver reported for a different signal"
            let real = run_real(&tc, &built.sigs, &spec, &RunOpts { continue_after_error: true, ..RunOpts { max_next: opts.max_next, fuel: opts.fuel, ..Default::default() } });
            if real.ctor.is_some() {
                out.fail("c13:ctor-differs", format!("constructor outcome changed by a deviation at a later call: {:?}", real.ctor));
                return out;
            }
            // (an item that came back as an error keeps its place in its expansion: its tag is known from the vector the
            // driver received in the call made for it)
            let tags_dev: Vec<Option<i64>> = real
                .items
                .iter()
                .enumerate()
                .map(|(i, it)| {
                    let inputs = match it {
                        RealItem::Row(r) => Some(&r.inputs),
                        _ if real.log_len_before.get(i + 1).copied() == Some(real.log_len_before[i] + 1) => real.log.get(real.log_len_before[i]).map(|c| &c.inputs),
                        _ => None,
                    };
                    match inputs.and_then(|v| v.iter().find(|e| e.0 == "TAG").map(|e| e.1)) {
                        Some(crate::model::InVal::Val(t)) => Some(t),
                        _ => None,
                    }
                })
                .collect();
            let pos_dev = crate::probe::positions(&tags_dev, &rows);
            // attribution of every returned row, before and after the deviating call
            for (i, item) in real.items.iter().enumerate() {
                let RealItem::Row(row) = item else { continue };
                if row.outputs.is_empty() {
                    // a mid-clock row - unless its position in the expansion of its source row
                    // (from the tags) says that it is a checked one
                    let by_position = pos_dev.get(i).copied().flatten().map(|(rid, p)| {
                        let phases = if rows[&rid].cs.is_empty() { 1 } else { 3 };
                        p % phases == phases - 1
                    });
                    if i > k && by_position == Some(true) {
                        out.fail(
                            "c13:checked-row-without-outputs-after-deviation",
                            format!("item {i} (deviation was at item {k}) is a checked row by its position in the expansion of its source row, yet it comes back without any output entry: nothing is compared any more"),
                        );
                        return out;
                    }
                    continue;
                }
                if real.log_len_before[i + 1] != real.log_len_before[i] + 1 {
                    break;
                }
                let call = &real.log[real.log_len_before[i]];
                if i > k {
                    out.class("row-after-deviation-checked");
                }
                for o in row.outputs.iter().filter(|o| !o.is_virtual) {
                    let Some(si) = built.sigs.iter().position(|s| s.name == o.name) else { continue };
                    // what the driver reported for this very signal in this call (first entry)
                    let reported = call.answer.iter().find(|(s, _)| *s == si).map(|(_, v)| *v).unwrap_or(crate::model::OutVal::X);
                    if o.output != reported {
                        out.fail(
                            "c13:misattributed-after-deviation",
                            format!(
                                "item {i} (deviation was at item {k}): the row reports {} = {}, the driver reported {} for it in this call (answer {:?})",
                                o.name, o.output, reported, call.answer
                            ),
                        );
                        return out;
                    }
                }
            }
            for i in 0..k {
                if real.items.get(i) != base.items.get(i) {
                    out.fail(
                        "c13:earlier-item-differs",
                        format!("deviation at item {k}: item {i} is {:?}, fault-free run has {:?}", real.items.get(i).map(|x| x.short()), base.items.get(i).map(|x| x.short())),
                    );
                    return out;
                }
            }
            // The row evaluated right after the deviating call (item k is a checked item, so
            // item k + 1 starts a fresh evaluation): a probe `(P)` in it reads what the driver
            // reported for P - for that very signal - in the deviating call, never what it
            // reported for another signal.
            // (with don't-care inputs: only if item k + 1 is the first item of its expansion - the others were evaluated
            // together with the first, before the deviating call)
            let fresh = matches!(pos_dev.get(k + 1).copied().flatten(), Some((_, 0)));
            if let (Some(RealItem::RuntimeErr(_)), Some(RealItem::Row(next)), true) = (real.items.get(k), real.items.get(k + 1), fresh) {
                let info = match next.inputs.iter().find(|e| e.0 == "TAG").map(|e| e.1) {
                    Some(crate::model::InVal::Val(t)) => rows.get(&((t - 1) as usize)),
                    _ => None,
                };
                let dev_call = real.log.get(real.log_len_before[k]);
                if let (Some(info), Some(dc)) = (info, dev_call) {
                    for (j, p) in info.probes.iter().enumerate() {
                        let Some(name) = p else { continue };
                        if info.possible.contains(name) {
                            continue;
                        }
                        let Some(si) = built.sigs.iter().position(|s| s.name == *name) else { continue };
                        let Some(crate::model::OutVal::Val(v)) = dc.answer.iter().find(|(s, _)| *s == si).map(|(_, v)| *v) else { continue };
                        let Some(crate::model::InVal::Val(shown)) = next.inputs.iter().find(|e| e.0 == format!("PR{j}")).map(|e| e.1) else { continue };
                        out.class("probe-after-deviation-checked");
                        if shown != v {
                            out.fail(
                                "c13:expression-reads-another-signals-value",
                                format!(
                                    "item {} (right after the deviating call for item {k}): ({name}) evaluated to {shown}; in the deviating call the driver reported {name} = {v} (answer {:?})",
                                    k + 1,
                                    dc.answer
                                ),
                            );
                            return out;
                        }
                    }
                }
            }
            // the repeated deviation: whichever item the deviating answer was given to - if it comes back as a row with
            // output entries, a deviating answer has been accepted
            if spec.deviate_again.is_some() {
                for (i, item) in real.items.iter().enumerate().skip(k + 1) {
                    let (b, a) = (real.log_len_before[i], real.log_len_before[i + 1]);
                    if a != b + 1 || !real.log[b].deviated || !real.log[b].read {
                        continue;
                    }
                    out.class("repeated-deviation-reached");
                    match item {
                        RealItem::Row(r) if !r.outputs.is_empty() => {
                            out.fail(
                                "c13:repeated-deviation-not-an-error",
                                format!("the driver deviated from its first layout in the call for item {k} (an error item, the caller went on) and in the same way in the call for item {i}: that item must be an error too, got {}", item.short()),
                            );
                            return out;
                        }
                        RealItem::Panic(p) => {
                            out.fail(p.key(), format!("repeated deviating answer made next() panic: {p}"));
                            return out;
                        }
                        _ => {}
                    }
                }
            }
            match real.items.get(k) {
                Some(RealItem::RuntimeErr(_)) => {}
                Some(RealItem::Panic(p)) => out.fail(p.key(), format!("deviating answer made next() panic: {p}")),
                other => out.fail(
                    "c13:deviation-not-an-error",
                    format!(
                        "the driver deviated from its first layout in the call for item {k}; that item must be an error, got {:?}",
                        other.map(|x| x.short())
                    ),
                ),
            }
            return out;
        }
        // failure plan
        let j = dch.upto(ncalls + 1);
        spec.fail_at = Some(j);
        render_case(&mut out, &text, &built.sigs, Some(&spec));
        let real = run_real(&tc, &built.sigs, &spec, &opts);
        let id = fail_id(&spec, j);
        if j == 0 {
            out.class("fail-at-ctor");
            match &real.ctor {
                Some(RealItem::DriverErr(e)) if *e == id => {}
                Some(RealItem::Panic(p)) => out.fail(p.key(), format!("failing initial call made try_iter panic: {p}")),
                other => out.fail(
                    "c13:ctor-error-lost",
                    format!("the initial driver call failed with {id:#x}; try_iter must return that driver error, got {:?}", other.as_ref().map(|x| x.short())),
                ),
            }
            if !real.items.is_empty() {
                out.fail("c13:rows-after-ctor-failure", "rows were produced although construction failed");
            }
            return out;
        }
        if j >= ncalls {
            out.class("no-fault-reached");
            if real.items != base.items {
                out.fail("c13:fault-free-runs-differ", "two fault-free runs differ");
            }
            return out;
        }
        out.nontrivial = true;
        let k = j - 1; // every item makes exactly one call; constructor is call 0
        if base.log.get(j).map(|c| c.read).unwrap_or(false) && matches!(base.items.get(k), Some(RealItem::Row(r)) if !r.outputs.is_empty()) {
            out.class("fail-at-checked-row");
        } else {
            out.class("fail-at-mid-clock-write");
        }
        if real.ctor.is_some() {
            out.fail("c13:ctor-differs", format!("constructor outcome changed by a failure at call {j}: {:?}", real.ctor));
            return out;
        }
        for i in 0..k {
            if real.items.get(i) != base.items.get(i) {
                out.fail(
                    "c13:earlier-item-differs",
                    format!("failure at call {j}: item {i} is {:?}, fault-free run has {:?}", real.items.get(i).map(|x| x.short()), base.items.get(i).map(|x| x.short())),
                );
                return out;
            }
        }
        match real.items.get(k) {
            Some(RealItem::DriverErr(e)) if *e == id => {}
            Some(RealItem::Panic(p)) => out.fail(p.key(), format!("failing driver call made next() panic: {p}")),
            other => out.fail(
                "c13:driver-error-lost",
                format!(
                    "driver call {j} (made for item {k}) failed with {id:#x}; that item must be this driver error, got {:?}",
                    other.map(|x| x.short())
                ),
            ),
        }
        if real.items.len() > k + 1 {
            out.fail("c13:items-after-error", "the harness stops at the first error; more items recorded");
        }
        out
    }
}
