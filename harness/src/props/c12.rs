//! C12 - malformed programs are rejected, never silently accepted.

use crate::breaker::*;
use crate::choice::Ch;
use crate::engine::*;
use crate::gen::*;
use crate::print::*;
use crate::props::c19::lines_cfg;
use crate::real::*;

pub struct C12;

pub fn break_cfg() -> Cfg {
    let mut c = lines_cfg();
    c.max_virtual = 2;
    c.expr.random = true;
    c.expr.signext = true;
    c.device_whiles = true;
    c
}

impl Property for C12 {
    fn id(&self) -> &'static str {
        "C12"
    }
    fn rule(&self) -> &'static str {
        "profile `break`: a valid generated program (parse must be Ok, else the case is a discard) + one grammar-breaking edit from a closed list of 19 kinds (delete a block's end line / the keyword after end; swap end loop/end while; end at top level; cut at a line boundary inside a block; cut inside a statement leaving a proper prefix; delete ; ) or , ; add/remove a row entry; rename a function; add/drop an argument; literal >= 2^64 in any radix; bits width 65..300; duplicate header name; repeated declare; header without line break), each invalid by a grammar argument written next to its implementation; rendered with random layout, with AND without a final newline. Oracle: parsing returns Err for both variants. Non-trivial: the edit lands at depth >= 1 or (always checked) the no-final-newline variant exists; distinct by (edit kind, text)."
    }
    fn cases(&self, tier: Tier) -> u64 {
        match tier {
            Tier::Quick => 96000,
            Tier::Thorough => 96000 * 100,
        }
    }
    fn required_classes(&self) -> Vec<&'static str> {
        ALL_EDITS.iter().map(|k| k.name()).chain(["edit-at-depth>=1"]).collect()
    }
    fn run(&self, s: &Streams) -> CaseOut {
        let mut out = CaseOut::new();
        out.owns_panics = true;
        // One case in forty: a header of 66-90 columns and one row in which a `bits(k, 5)` entry with k from 65 up to the
        // number of columns stands for k of them (the row has the right total length). The same row with `bits(64, 5)`
        // and one literal more must be accepted, so the width is what is wrong: above 64 whatever the header's length.
        {
            let mut wch = Ch::new(&s[2]);
            if wch.chance(1, 40) {
                out.class("bits-width-above-64-in-a-wide-header");
                let n = 66 + wch.upto(25);
                let k = 65 + wch.upto(n - 64);
                let header: Vec<String> = (0..n).map(|i| format!("W{i}")).collect();
                let before = wch.upto(n - k + 1);
                let row = |w: usize| -> String {
                    let mut es: Vec<String> = vec!["0".to_string(); before];
                    es.push(format!("bits({w},5)"));
                    es.extend(std::iter::repeat("0".to_string()).take(n - before - w));
                    es.join(" ")
                };
                let wrap = wch.upto(3);
                let nl = wch.chance(1, 2);
                let text = |w: usize| -> String {
                    let body = match wrap {
                        0 => row(w),
                        1 => format!("repeat(2) {}", row(w)),
                        _ => format!("loop(i,2)\n{}\nend loop", row(w)),
                    };
                    format!("{}\n{}{}", header.join(" "), body, if nl { "\n" } else { "" })
                };
                out.put("source", text(k));
                out.nontrivial = true;
                match parse(&text(64)) {
                    Ok(Ok(_)) => {}
                    _ => {
                        out.discard("valid-program-rejected");
                        return out;
                    }
                }
                match parse(&text(k)) {
                    Err(p) => out.fail(p.key(), format!("parsing a malformed program panicked: {p}")),
                    Ok(Ok(_)) => out.fail(
                        format!("c12:accepted:bits-width-above-64-in-a-wide-header:{}", if nl { "nl" } else { "no-nl" }),
                        format!("a header of {n} columns and a row holding `bits({k},5)` (total length right) was accepted: a bits width above 64 is malformed whatever the header's length"),
                    ),
                    Ok(Err(_)) => {}
                }
                return out;
            }
        }
        let cfg = break_cfg();
        let built = gen_case(&mut Ch::new(&s[0]), &cfg);
        let lines = program_lines(&built.prog);
        // the unbroken program must parse (else: discard, counted)
        let valid = render(&lines, &mut Ch::new(&[]), LayoutOpts::CANON).text;
        match parse(&valid) {
            Ok(Ok(_)) => {}
            _ => {
                out.put("source", valid);
                out.discard("valid-program-rejected");
                return out;
            }
        }
        let mut ech = Ch::new(&s[2]);
        let Some(b) = break_lines(&lines, &mut ech) else {
            out.discard("no-edit-site");
            return out;
        };
        out.class(b.kind.name());
        out.class_if(b.depth >= 1, "edit-at-depth>=1");
        let opts = LayoutOpts {
            lead_blank: true,
            insert_lines: true,
            trailing_comments: true,
            spacing: true,
            crlf: true,
            reradix: false,
            drop_final_newline: false,
            header_spacing: true,
            final_newline: None,
            cr_at_eol: false,
            mixed_eol: true,
        };
        let via_dig = ech.chance(1, 4);
        let variants: &[bool] = if b.force_no_newline { &[false] } else { &[true, false] };
        for keep_nl in variants {
            let mut o = opts;
            o.final_newline = Some(*keep_nl);
            if !keep_nl {
                // nothing may follow the last token of a cut text
                o.trailing_comments = false;
            }
            let r = render(&b.lines, &mut Ch::new(&s[1]), o);
            out.put(if *keep_nl { "source(with final newline)" } else { "source(no final newline)" }, r.text.clone());
            match parse(&r.text) {
                Err(p) => {
                    out.put("edit", format!("{} at {}", b.kind.name(), b.site));
                    out.fail(p.key(), format!("parsing a malformed program panicked: {p}"));
                    return out;
                }
                Ok(Ok(_)) => {
                    out.put("edit", format!("{} at {}", b.kind.name(), b.site));
                    out.fail(
                        format!("c12:accepted:{}:{}", b.kind.name(), if *keep_nl { "nl" } else { "no-nl" }),
                        format!(
                            "malformed program accepted ({} at {}, final newline: {keep_nl}):\n{}",
                            b.kind.name(),
                            b.site,
                            r.text
                        ),
                    );
                    return out;
                }
                Ok(Err(_)) => {}
            }
            // the other way into the crate: the same text as the source of a test in a .dig document (one labelled pin per
            // signal), loaded with load_test. Malformed is malformed on that path too, final line break or not.
            if via_dig {
                out.class("also-through-a-dig-document");
                if let Ok(Some(_)) = crate::props::common::load_via_dig(&r.text, &built.sigs) {
                    out.put("edit", format!("{} at {}", b.kind.name(), b.site));
                    out.fail(
                        format!("c12:accepted-through-dig:{}:{}", b.kind.name(), if *keep_nl { "nl" } else { "no-nl" }),
                        format!("malformed program ({} at {}, final newline: {keep_nl}) rejected by str::parse but accepted as the source of a test in a .dig document (dig::File::parse + load_test):\n{}", b.kind.name(), b.site, r.text),
                    );
                    return out;
                }
            }
        }
        out.put("edit", format!("{} at {}", b.kind.name(), b.site));
        out.nontrivial = true;
        out
    }
}
