//! C20 - layout is irrelevant: whitespace, comments and literal radix do not change rows.

use crate::breaker::*;
use crate::choice::Ch;
use crate::device::*;
use crate::engine::*;
use crate::gen::*;
use crate::print::*;
use crate::props::c12::break_cfg;
use crate::props::common::load_via_dig;
use crate::real::*;

pub struct C20;

impl Property for C20 {
    fn id(&self) -> &'static str {
        "C20"
    }
    fn rule(&self) -> &'static str {
        "profile `layout`: a generated program - valid, or (1 in 4) broken by one grammar-breaking edit - in one case in eight with one literal replaced by a value in 2^63 .. 2^64-1 (in a third of these a literal inside an expression, with a unary minus put in front) - printed twice from one token sequence: canonical (single blanks, LF, no comments; in a quarter of the cases without a line break behind the last line) and re-laid-out with every freedom the statement lists, all after the header line (blank space widened / tabs / CR / removed where adjacency is safe - between a symbol and anything, and between a number and a directly following X / Z / C entry, which lex as the same two tokens (`0X`, `12z`; not C after a hex literal) -, a CR before the LF of all or of some lines, trailing # comments, inserted blank and comment-only lines, literals rewritten in decimal / 0x / 0X either digit case / 0b / 0B / leading-zero octal). One unbroken case in eight is also run with both texts embedded in .dig documents and loaded with load_test. Oracle (metamorphic, no reference semantics): same Ok/Err from parsing, same from binding, and equal items from equally scripted runs (dynamic, and static when possible) except `line`, which must move exactly to where the printer put that row. Non-trivial: the two texts differ in >= 3 kinds of layout change including a radix change or a removed blank; distinct by both texts."
    }
    fn cases(&self, tier: Tier) -> u64 {
        match tier {
            Tier::Quick => 48000,
            Tier::Thorough => 48000 * 100,
        }
    }
    fn stream_lens(&self) -> [usize; 3] {
        [400, 400, 60]
    }
    fn required_classes(&self) -> Vec<&'static str> {
        vec!["reradixed", "removed-blank", "tabs-or-cr", "trailing-comment", "inserted-lines", "broken-program", "valid-program", "rows-compared", "static-compared", "number-joined-to-X/Z/C", "mixed-line-ends", "literal-beyond-i64", "negated-literal-beyond-i64", "canonical-text-without-final-newline", "both-texts-loaded-from-dig-documents"]
    }
    fn run(&self, s: &Streams) -> CaseOut {
        let mut out = CaseOut::new();
        let built = gen_case(&mut Ch::new(&s[0]), &break_cfg());
        let mut lines = program_lines(&built.prog);
        let mut dch = Ch::new(&s[2]);
        let broken = dch.chance(1, 4);
        let mut force_no_nl = false;
        if broken {
            if let Some(b) = break_lines(&lines, &mut dch) {
                lines = b.lines;
                force_no_nl = b.force_no_newline;
                out.class("broken-program");
                out.put("edit", b.kind.name());
            }
        } else {
            out.class("valid-program");
        }
        // one program in eight has one of its literals replaced by a value beyond the 64-bit
        // signed range (2^63 .. 2^64-1): whatever the verdict on such a literal is, it is the
        // same in every radix
        if dch.chance(1, 8) {
            let sites: Vec<(usize, usize)> = lines
                .iter()
                .enumerate()
                .filter(|(_, l)| l.kind != LineKind::Header)
                .flat_map(|(li, l)| l.toks.iter().enumerate().filter(|(_, t)| matches!(t.class, TokClass::Num(..))).map(move |(ti, _)| (li, ti)))
                .collect();
            // (in a third of these the literal is one inside an expression and gets a unary minus
            // in front: -2^63 is the one value whose magnitude alone does not fit)
            let in_expr: Vec<(usize, usize)> = sites
                .iter()
                .copied()
                .filter(|&(li, ti)| ti > 0 && lines[li].toks[ti - 1].class == TokClass::Sym && lines[li].toks[ti - 1].text != ")")
                .collect();
            let negate = !in_expr.is_empty() && dch.chance(1, 3);
            let sites = if negate { in_expr } else { sites };
            if !sites.is_empty() {
                let (li, ti) = sites[dch.upto(sites.len())];
                if let TokClass::Num(_, r) = lines[li].toks[ti].class {
                    let v = match dch.upto(if negate { 2 } else { 4 }) {
                        0 => 1u64 << 63,
                        1 => (1u64 << 63) + dch.upto(2) as u64 * 5,
                        2 => u64::MAX,
                        _ => dch.u64() | (1u64 << 63),
                    };
                    lines[li].toks[ti] = Tok { text: fmt_num(v, r), class: TokClass::Num(v, r) };
                    out.class("literal-beyond-i64");
                    if negate {
                        if lines[li].toks[ti - 1].text != "-" {
                            lines[li].toks.insert(ti, Tok { text: "-".into(), class: TokClass::Sym });
                        }
                        out.class("negated-literal-beyond-i64");
                    }
                }
            }
        }
        let mut o1 = LayoutOpts::CANON;
        let mut o2 = LayoutOpts::AFTER_HEADER;
        if force_no_nl {
            o1.final_newline = Some(false);
            o2.final_newline = Some(false);
            o2.insert_lines = false;
            o2.trailing_comments = false;
        }
        // in a quarter of the unbroken cases the canonical text ends without a line break behind
        // its last line, while the re-laid-out one ends it (and may put blank or comment-only
        // lines below it): nothing was inserted above any row
        if !force_no_nl && dch.chance(1, 4) {
            o1.final_newline = Some(false);
            out.class("canonical-text-without-final-newline");
        }
        let r1 = render(&lines, &mut Ch::new(&[]), o1);
        let r2 = render(&lines, &mut Ch::new(&s[1]), o2);
        out.put("canonical", r1.text.clone());
        out.put("relaid", r2.text.clone());
        out.put("signals", crate::model::describe_sigs(&built.sigs));
        let st = &r2.stats;
        out.class_if(st.reradixed > 0, "reradixed");
        out.class_if(st.removed_blanks > 0, "removed-blank");
        out.class_if(st.tabs_or_cr > 0, "tabs-or-cr");
        out.class_if(st.trailing_comments > 0, "trailing-comment");
        out.class_if(st.inserted_lines > 0, "inserted-lines");
        out.class_if(st.num_xzc_sites > 0, "number-joined-to-X/Z/C");
        out.class_if(st.mixed_eol, "mixed-line-ends");
        out.nontrivial = st.kinds() >= 3 && (st.reradixed > 0 || st.removed_blanks > 0);

        // One unbroken case in eight (if no signal is bidirectional) goes through .dig documents:
        // both texts are embedded in a document each and loaded with load_test. The loader keeps
        // the source verbatim, so the two tests relate exactly as the two texts do.
        if !broken && dch.chance(1, 8) && !built.sigs.iter().any(|s| matches!(s.kind, crate::model::Kind::Bidir(_))) {
            let a = load_via_dig(&r1.text, &built.sigs);
            let b = load_via_dig(&r2.text, &built.sigs);
            match (a, b) {
                (Ok(Some(tc1)), Ok(Some(tc2))) => {
                    out.class("both-texts-loaded-from-dig-documents");
                    let spec = DriverSpec::honest(&built.sigs, 3, Palette::Small);
                    let ra = run_real(&tc1, &built.sigs, &spec, &RunOpts { max_next: 200, ..Default::default() });
                    let rb = run_real(&tc2, &built.sigs, &spec, &RunOpts { max_next: 200, ..Default::default() });
                    let strip = |items: &[RealItem]| -> Vec<RealItem> {
                        items.iter().map(|i| if let RealItem::Row(r) = i { RealItem::Row(RealRow { line: 0, ..r.clone() }) } else { i.clone() }).collect()
                    };
                    if ra.ctor != rb.ctor || strip(&ra.items) != strip(&rb.items) {
                        out.fail("c20:row-differs", "loaded from .dig documents, the canonical and the re-laid-out text yield different items");
                        return out;
                    }
                }
                (Ok(Some(_)), Ok(None)) | (Ok(None), Ok(Some(_))) => {
                    out.fail("c20:parse-verdict-differs", "embedded in .dig documents, one of the two texts loads and the other does not");
                    return out;
                }
                _ => {}
            }
        }
        let p1 = parse(&r1.text);
        let p2 = parse(&r2.text);
        let (p1, p2) = match (p1, p2) {
            (Err(p), _) | (_, Err(p)) => {
                out.fail(p.key(), format!("parsing panicked: {p}"));
                return out;
            }
            (Ok(a), Ok(b)) => (a, b),
        };
        match (&p1, &p2) {
            (Ok(_), Ok(_)) => {}
            (Err(_), Err(_)) => return out,
            _ => {
                out.fail(
                    "c20:parse-verdict-differs",
                    format!(
                        "canonical layout {} but re-laid-out text {}",
                        if p1.is_ok() { "is accepted" } else { "is rejected" },
                        match &p2 {
                            Ok(_) => "is accepted".to_string(),
                            Err(e) => format!("is rejected: {}", err_text(e)),
                        }
                    ),
                );
                return out;
            }
        }
        let sigs = &built.sigs;
        let b1 = guarded(|| p1.unwrap().with_signals(to_signals(sigs)));
        let b2 = guarded(|| p2.unwrap().with_signals(to_signals(sigs)));
        let (tc1, tc2) = match (b1, b2) {
            (Err(p), _) | (_, Err(p)) => {
                out.fail(p.key(), format!("binding panicked: {p}"));
                return out;
            }
            (Ok(Ok(a)), Ok(Ok(b))) => (a, b),
            (Ok(Err(_)), Ok(Err(_))) => return out,
            (Ok(a), Ok(b)) => {
                out.fail(
                    "c20:bind-verdict-differs",
                    format!("binding the canonical layout gives ok={} but the re-laid-out text ok={}", a.is_ok(), b.is_ok()),
                );
                return out;
            }
        };
        let spec = gen_spec(
            &mut dch,
            sigs,
            &SpecCfg { palette: Palette::Small, zx: 8, free_layout: false, must_supply: built.must_supply(), both_driver_types: true },
        );
        out.put("driver", spec.describe(sigs));
        let opts = RunOpts { max_next: 300, ..Default::default() };
        let a = run_real(&tc1, sigs, &spec, &opts);
        let b = run_real(&tc2, sigs, &spec, &opts);
        let line_map = |l1: usize| -> Option<usize> { r1.row_line.iter().position(|x| *x == l1).map(|id| r2.row_line[id]) };
        if a.ctor != b.ctor {
            out.fail("c20:ctor-differs", format!("constructor: {:?} vs {:?}", a.ctor, b.ctor));
            return out;
        }
        if a.items.len() != b.items.len() || a.ended != b.ended {
            out.fail(
                "c20:row-count-differs",
                format!("canonical run: {} items (ended {}), re-laid-out run: {} items (ended {})", a.items.len(), a.ended, b.items.len(), b.ended),
            );
            return out;
        }
        for (i, (x, y)) in a.items.iter().zip(&b.items).enumerate() {
            match (x, y) {
                (RealItem::Row(rx), RealItem::Row(ry)) => {
                    out.class("rows-compared");
                    let mut ry2 = ry.clone();
                    ry2.line = rx.line;
                    if *rx != ry2 {
                        out.fail("c20:row-differs", format!("item {i}: canonical {} vs re-laid-out {}", x.short(), y.short()));
                        return out;
                    }
                    if line_map(rx.line) != Some(ry.line) {
                        out.fail(
                            "c20:line-shift",
                            format!("item {i}: line {} in the canonical text, {} in the re-laid-out text, its row was moved to {:?}", rx.line, ry.line, line_map(rx.line)),
                        );
                        return out;
                    }
                }
                (RealItem::Panic(p), _) | (_, RealItem::Panic(p)) => {
                    out.fail(p.key(), format!("item {i} panicked: {p}"));
                    return out;
                }
                (x, y) => {
                    if x != y {
                        out.fail("c20:item-differs", format!("item {i}: {} vs {}", x.short(), y.short()));
                        return out;
                    }
                }
            }
        }
        if built.analysis.is_static() {
            let sa = run_static(&tc1, 300, Some(0));
            let sb = run_static(&tc2, 300, Some(0));
            if let (StaticRun::Items { items: ia, ended: ea }, StaticRun::Items { items: ib, ended: eb }) = (&sa, &sb) {
                out.class("static-compared");
                if ia.len() != ib.len() || ea != eb {
                    out.fail("c20:static-count-differs", format!("{} vs {} static items", ia.len(), ib.len()));
                    return out;
                }
                for (i, (x, y)) in ia.iter().zip(ib).enumerate() {
                    if let (StaticItem::Row(rx), StaticItem::Row(ry)) = (x, y) {
                        let mut ry2 = ry.clone();
                        ry2.line = rx.line;
                        if *rx != ry2 || line_map(rx.line) != Some(ry.line) {
                            out.fail("c20:static-row-differs", format!("static item {i}: {rx:?} vs {ry:?}"));
                            return out;
                        }
                    }
                }
            } else if std::mem::discriminant(&sa) != std::mem::discriminant(&sb) {
                out.fail("c20:static-verdict-differs", format!("{sa:?} vs {sb:?}"));
                return out;
            }
        }
        out
    }
}
