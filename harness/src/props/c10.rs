//! C10 - running an accepted test never panics; runtime problems are error items.

use crate::choice::Ch;
use crate::device::*;
use crate::engine::*;
use crate::gen::*;
use crate::props::common::*;
use crate::real::*;
use crate::ri;

pub struct C10;

pub fn chaos_cfg() -> Cfg {
    let mut c = Cfg::flow();
    c.n_in = (1, 3);
    c.n_out = (1, 3);
    c.n_bidir = (0, 2);
    c.interleave = true;
    c.widths = Widths::Mixed;
    c.wild_defaults = true;
    c.permute_header = true;
    c.omit_cols = true;
    c.max_virtual = 2;
    c.allow_c = true;
    c.allow_input_x = true;
    c.max_x = 3;
    c.max_depth = 4;
    c.fit = Fit::Free;
    c.small_device = false;
    c.counter_rebind = true;
    c.maybe_unbound_refs = true;
    c.shared_cols = true;
    c.virtual_random = true;
    c.expr.boundary = true;
    c.expr.total = false;
    c.expr.random = true;
    c.expr.signext = true;
    c.expr.bad_random_bounds = true;
    c.expr.odd_shifts = true;
    c.expr.chains = true;
    c
}

/// The run + oracle, shared with the structure-aware fuzz target.
pub fn run_chaos(s: &Streams) -> CaseOut {
    let mut out = CaseOut::new();
    out.owns_panics = true;
    let mut dch = Ch::new(&s[2]);
    // each case enables a random subset of the hazard sources, so that the rarer ones are
    // not always masked by an earlier, more common error
    let mut cfg = chaos_cfg();
    cfg.expr.total = dch.chance(1, 2);
    cfg.expr.signext = dch.chance(1, 3);
    cfg.expr.bad_random_bounds = dch.chance(1, 3);
    cfg.expr.random = dch.chance(2, 3);
    cfg.maybe_unbound_refs = dch.chance(2, 3);
    cfg.counter_rebind = dch.chance(1, 2);
    // one case in forty has 61-67 extra one-bit inputs and rows that hold X in every input column
    // (64 and more don't-cares in one row: only the first few of the 2^k items are asked for)
    if dch.chance(1, 40) {
        cfg.wide_inputs = true;
        cfg.all_x_rows = true;
        cfg.omit_cols = false;
        out.class("rows-with-64-and-more-X");
    }
    let mut built = gen_case(&mut Ch::new(&s[0]), &cfg);
    // In half of the cases one statement that cannot be evaluated whatever the values are is
    // put at a random TOP-LEVEL position: it is executed unconditionally once everything
    // before it has run. A run that reaches the end of iteration must then contain an error
    // item. (This oracle needs no reference values, so it cannot be disturbed by changes that
    // only move values around.)
    let mut planted: Option<&'static str> = None;
    if dch.chance(1, 2) {
        use crate::model::*;
        let at = dch.upto(built.prog.stmts.len() + 1);
        let (kind, stmts): (&'static str, Vec<Stmt>) = match dch.upto(8) {
            // both operands of a binary operator are evaluated, whatever the other one's value
            5 => ("division by zero in the right operand of `0 & ...`", vec![Stmt::Let("hz".into(), Expr::bin(BinOp::And, Expr::lit(0), Expr::Group(Box::new(Expr::bin(BinOp::Div, Expr::lit(7), Expr::lit(0))))))]),
            6 => ("remainder by zero in the right operand of `0 * ...`", vec![Stmt::Let("hz".into(), Expr::bin(BinOp::Mul, Expr::lit(0), Expr::Group(Box::new(Expr::bin(BinOp::Rem, Expr::lit(5), Expr::lit(0))))))]),
            7 => (
                "variable never assigned on the executed path, in the right operand of `0 & ...`",
                vec![
                    Stmt::While(Expr::lit(0), vec![Stmt::Let("nv".into(), Expr::lit(1))]),
                    Stmt::Let("hz".into(), Expr::bin(BinOp::And, Expr::lit(0), Expr::un(UnOp::BitNot, Expr::var("nv")))),
                ],
            ),
            0 => ("division by zero", vec![Stmt::Let("hz".into(), Expr::bin(BinOp::Div, Expr::lit(7), Expr::lit(0)))]),
            1 => ("remainder by zero", vec![Stmt::Let("hz".into(), Expr::bin(BinOp::Rem, Expr::bin(BinOp::Add, Expr::lit(3), Expr::lit(4)), Expr::lit(0)))]),
            2 => ("function that is not implemented", vec![Stmt::Let("hz".into(), Expr::SignExt(Box::new(Expr::lit(4)), Box::new(Expr::lit(9))))]),
            3 => (
                "variable never assigned on the executed path",
                vec![
                    Stmt::While(Expr::lit(0), vec![Stmt::Let("nv".into(), Expr::lit(1))]),
                    Stmt::Let("hz".into(), Expr::var("nv")),
                ],
            ),
            _ => (
                "variable never assigned on the executed path",
                vec![
                    Stmt::Loop("zz".into(), Expr::lit(0), vec![Stmt::While(Expr::lit(1), vec![Stmt::Let("nv".into(), Expr::lit(1))])]),
                    Stmt::While(Expr::lit(0), vec![Stmt::Let("nv".into(), Expr::lit(2))]),
                    Stmt::Let("hz".into(), Expr::bin(BinOp::Add, Expr::var("nv"), Expr::lit(1))),
                ],
            ),
        };
        // (in two cases of five the statement stands inside a block that runs exactly once - the body of a `while`
        // whose variable is cleared first, of a `loop(lz, 1)`, or of one inside the other: an error raised inside a
        // block surfaces like one at the top level)
        let stmts: Vec<Stmt> = match dch.upto(10) {
            0 | 1 => {
                let mut body = vec![Stmt::Let("wz".into(), Expr::lit(0))];
                body.extend(stmts);
                vec![Stmt::Let("wz".into(), Expr::lit(1)), Stmt::While(Expr::var("wz"), body)]
            }
            2 => vec![Stmt::Loop("lz".into(), Expr::lit(1), stmts)],
            3 => {
                let mut body = vec![Stmt::Let("wz".into(), Expr::lit(0))];
                body.extend(stmts);
                vec![Stmt::Loop("lz".into(), Expr::lit(1), vec![Stmt::Let("wz".into(), Expr::lit(1)), Stmt::While(Expr::var("wz"), body)])]
            }
            _ => stmts,
        };
        for (k, st) in stmts.into_iter().enumerate() {
            built.prog.stmts.insert(at + k, st);
        }
        built.analysis = analyse(&built.prog);
        planted = Some(kind);
    }
    // One case in six is a deliberate misfit between program and signal list (a C entry moved
    // into an expected-only column, a C column turned into an output, or other edits of the
    // list): binding must refuse it (C11). If it is accepted all the same, it is an accepted
    // test like any other and must run without panicking.
    let mut misfit: Vec<String> = vec![];
    if dch.chance(1, 6) {
        use crate::model::*;
        match dch.weighted(&[3, 3, 2]) {
            0 => {
                // put a C into an expected-only column of some row
                let cols = built.cols.clone();
                let mut sites: Vec<(usize, usize)> = vec![];
                let mut ri_ = 0usize;
                built.prog.visit_stmts(&mut |st, _| {
                    if let Stmt::Row(_, es) | Stmt::Repeat(_, _, es) = st {
                        let mut col = 0;
                        for (k, e) in es.iter().enumerate() {
                            if e.width() == 1 && cols.get(col).map(|c| c.role == ColRole::ExpectedOnly).unwrap_or(false) {
                                sites.push((ri_, k));
                            }
                            col += e.width();
                        }
                        ri_ += 1;
                    }
                });
                if !sites.is_empty() {
                    let (r, k) = sites[dch.upto(sites.len())];
                    let mut ri2 = 0usize;
                    fn go(bl: &mut [Stmt], ri2: &mut usize, r: usize, k: usize) {
                        for st in bl {
                            match st {
                                Stmt::Row(_, es) | Stmt::Repeat(_, _, es) => {
                                    if *ri2 == r {
                                        es[k] = Entry::C(true);
                                    }
                                    *ri2 += 1;
                                }
                                Stmt::Loop(_, _, inner) | Stmt::While(_, inner) => go(inner, ri2, r, k),
                                _ => {}
                            }
                        }
                    }
                    go(&mut built.prog.stmts, &mut ri2, r, k);
                    misfit.push(format!("C put into an expected-only column (row statement {r}, entry {k})"));
                }
            }
            1 => {
                if let Some(c) = built.analysis.ccols.iter().next().cloned() {
                    if let Some(sg) = built.sigs.iter_mut().find(|s| s.name == c) {
                        sg.kind = Kind::Out;
                        misfit.push(format!("C column {c} made an output"));
                    }
                }
            }
            _ => {
                let b2 = Built { prog: built.prog.clone(), sigs: built.sigs.clone(), cols: built.cols.clone(), analysis: built.analysis.clone() };
                let mut sigs = built.sigs.clone();
                for _ in 0..1 + dch.upto(2) {
                    crate::props::c11::edit_list(&mut dch, &mut sigs, &b2, &mut misfit);
                }
                built.sigs = sigs;
            }
        }
        built.analysis = crate::model::analyse(&built.prog);
    }
    let is_misfit = !misfit.is_empty() && crate::model::fits(&built.prog, &built.analysis, &built.sigs).is_err();
    let text = built_text(&built);
    let palette = if dch.chance(1, 2) { Palette::Boundary } else { Palette::Small };
    let mut spec = gen_spec(
        &mut dch,
        &built.sigs,
        &SpecCfg {
            palette,
            zx: 0,
            free_layout: true,
            must_supply: built.must_supply(),
            both_driver_types: true,
        },
    );
    if dch.chance(1, 3) {
        spec.zx = 20;
    }
    if dch.chance(1, 6) {
        spec.fail_at = Some(dch.upto(12));
    }
    let seed = match dch.upto(4) {
        0 => 0,
        1 => 1,
        2 => u64::MAX,
        _ => dch.u64(),
    };
    render_case(&mut out, &text, &built.sigs, Some(&spec));
    out.put("seed", format!("{seed}"));
    if !misfit.is_empty() {
        out.put("misfit-edits", misfit.join("; "));
    }
    let f = feats(&built);
    feat_classes(&mut out, &f);
    out.class_if(built.sigs.iter().any(|s| s.bits >= 63), "width>=63");
    // accepted at load time?
    let tc = match load(&text, &built.sigs) {
        Ok(tc) => tc,
        Err(LoadErr::Panic(p)) => {
            out.fail(p.key(), format!("loading panicked: {p}"));
            return out;
        }
        Err(e) => {
            out.put("load-error", format!("{e:?}"));
            out.discard(if is_misfit { "misfit-refused-at-load-time" } else { "not-accepted-at-load-time" });
            return out;
        }
    };
    out.class_if(is_misfit, "misfit-accepted-at-load-time");
    let real = run_real(
        &tc,
        &built.sigs,
        &spec,
        &RunOpts { max_next: 300, want_vars: true, seed: Some(seed), extra_after_end: 1, ..Default::default() },
    );
    if let Some(RealItem::Panic(p)) = &real.ctor {
        out.fail(p.key(), format!("constructing the iterator panicked: {p}"));
        return out;
    }
    for (i, item) in real.items.iter().enumerate() {
        if let RealItem::Panic(p) = item {
            out.fail(p.key(), format!("next() #{i} (or vars() after it) panicked: {p}"));
            return out;
        }
    }
    // the static iterator as well
    if built.analysis.is_static() {
        match run_static(&tc, 300, Some(seed)) {
            StaticRun::CtorPanic(p) => {
                out.fail(p.key(), format!("try_iter_static panicked: {p}"));
                return out;
            }
            StaticRun::Items { items, .. } => {
                out.class("static-run");
                for (i, it) in items.iter().enumerate() {
                    if let StaticItem::Panic(p) = it {
                        out.fail(p.key(), format!("static next() #{i} panicked: {p}"));
                        return out;
                    }
                }
            }
            StaticRun::NotStatic(_) => {}
        }
    }
    // the planted, unconditionally executed hazard must surface as an error item
    if let Some(kind) = planted {
        out.class("planted-unconditional-hazard");
        let any_error = real.ctor.is_some() || real.items.iter().any(|i| !matches!(i, RealItem::Row(_)));
        if real.ended && !any_error {
            out.fail(
                "c10:hazard-not-an-error-item",
                format!(
                    "the program executes a `let hz = ...` that cannot be evaluated ({kind}) unconditionally (at the top level, or inside a block that runs exactly once), yet the run reached the end of iteration after {} rows without any error item",
                    real.items.len()
                ),
            );
            return out;
        }
        out.class_if(real.items.iter().any(|i| matches!(i, RealItem::RuntimeErr(_))), "planted-hazard-surfaced");
    }
    // which hazards were reached (reference interpreter replaying the crate's own draw log;
    // used for the evidence histogram only, nothing is asserted from it)
    let t = ri::run(
        &built.prog,
        &built.sigs,
        &spec,
        &ri::RiOpts { counter_from_env: true, draws: Some(real.draws.clone()), row_cap: 300, ..Default::default() },
    );
    let mut hazard_seen = planted.is_some();
    if let Some(ri::RiItem::Hazard { hazard, .. }) = t.items.last() {
        if !matches!(hazard, ri::Hazard::DrawLogExhausted | ri::Hazard::DrawMismatch(_)) {
            out.class(hazard.class());
            hazard_seen = true;
        }
    }
    out.class_if(real.items.iter().any(|i| matches!(i, RealItem::DriverErr(_))) || matches!(real.ctor, Some(RealItem::DriverErr(_))), "driver-error");
    out.class_if(real.items.iter().any(|i| matches!(i, RealItem::RuntimeErr(_))), "runtime-error-item");
    let rows = real.items.iter().filter(|i| matches!(i, RealItem::Row(_))).count();
    out.nontrivial = hazard_seen || built.sigs.iter().any(|s| s.bits >= 63) || rows >= 3;
    out
}

impl Property for C10 {
    fn id(&self) -> &'static str {
        "C10"
    }
    fn rule(&self) -> &'static str {
        "profile `chaos`: everything the other profiles avoid - unguarded / and %, random with bounds {-1,0,1,2,...}, signExt, variables bound only on paths that do not execute (while(0), loops with bound <= 0), counter rebinding incl. to i64::MAX, 64-bit boundary arithmetic and shift counts, widths 1..64, wild defaults, shared input/expected columns, X and C anywhere (one case in forty: 61-67 extra inputs and rows with X in every input column), virtual signals using random, drivers answering Z/X and returning errors at any call, seeds {0,1,MAX,random}; each case enables a random subset of the hazard sources; kept only if the crate accepts it at load time; one case in six is a deliberate misfit between program and signal list (a C entry in an expected-only column, a C column that is an output, edits of the list as in C11) - refused by a correct binding and then discarded, run like any other accepted test if it is accepted all the same. Run through try_iter, next() to the first error item or the end (+1 call), vars() after each row, and try_iter_static. Oracle: (1) no panic anywhere; (2) in half of the cases a statement that cannot be evaluated whatever the values are - division / remainder by literal zero, signExt, a variable whose only `let` sits in a while(0) body or in a loop with bound 0, each also as the right operand of `0 & ...` / `0 * ...` (only ite is lazy) - is planted at a random top-level position (in two cases of five inside a `while` body / a `loop(lz, 1)` body / both, that runs exactly once), where it is executed unconditionally: a run that reaches the end of iteration must then contain an error item. Nothing is asserted about values. The reference interpreter (replaying the crate's own draw log) only classifies which hazards were reached, for the histogram. Non-trivial: a hazardous evaluation was reached or planted, or a width >= 63 is used, or >= 3 rows ran; distinct by source + signals + driver + seed. Thorough adds libFuzzer target run_structured on the same decoder."
    }
    fn cases(&self, tier: Tier) -> u64 {
        match tier {
            Tier::Quick => 80000,
            Tier::Thorough => 80000 * 100,
        }
    }
    fn required_classes(&self) -> Vec<&'static str> {
        vec!["hazard:divzero", "hazard:unresolved", "hazard:zxread", "hazard:randombound", "hazard:signext", "width>=63", "driver-error", "static-run", "random", "declare", "planted-unconditional-hazard", "planted-hazard-surfaced", "rows-with-64-and-more-X"]
    }
    fn check_raw(&self, _kind: &str, data: &[u8]) -> Option<(String, String)> {
        crate::fuzzglue::run_structured_kv(data)
    }
    fn fuzz_targets(&self) -> Vec<&'static str> {
        vec!["run_structured"]
    }
    fn regressions(&self) -> Vec<Regression> {
        use crate::model::*;
        fn run_text(text: &str, sigs: Vec<Sig>) -> Result<Vec<RealItem>, String> {
            let tc = load(text, &sigs).map_err(|e| format!("not accepted: {e:?}"))?;
            let spec = DriverSpec::honest(&sigs, 1, Palette::Small);
            let r = run_real(&tc, &sigs, &spec, &RunOpts { max_next: 50, ..Default::default() });
            if let Some(RealItem::Panic(p)) = &r.ctor {
                return Err(format!("{p}"));
            }
            for i in &r.items {
                if let RealItem::Panic(p) = i {
                    return Err(format!("{p}"));
                }
            }
            Ok(r.items)
        }
        fn abqr() -> Vec<Sig> {
            vec![
                Sig { name: "A".into(), bits: 8, kind: Kind::In(InVal::Val(0)) },
                Sig { name: "B".into(), bits: 8, kind: Kind::In(InVal::Val(0)) },
                Sig { name: "Q".into(), bits: 8, kind: Kind::Out },
                Sig { name: "R".into(), bits: 8, kind: Kind::Out },
            ]
        }
        fn expect_error_item(text: &str) -> Result<(), String> {
            let items = run_text(text, abqr())?;
            match items.last() {
                Some(RealItem::RuntimeErr(_)) => Ok(()),
                other => Err(format!("expected a runtime error item, got {other:?}")),
            }
        }
        vec![
            Regression { name: "S2 arithmetic overflow does not panic", run: || {
                run_text("A B Q R\n(9223372036854775807+1) (1<<64) (-(1<<63)) X\n", abqr()).map(|_| ())
            } },
            Regression { name: "S3 division by zero is an error item", run: || {
                expect_error_item("A B Q R\n(1/0) 0 X X\n")?;
                expect_error_item("A B Q R\n(1%0) 0 X X\n")
            } },
            Regression { name: "S3 MIN / -1 does not panic", run: || {
                run_text("A B Q R\n((0-9223372036854775807-1)/(0-1)) ((0-9223372036854775807-1)%(0-1)) X X\n", abqr()).map(|_| ())
            } },
            Regression { name: "S4 empty random range is an error item or a value", run: || {
                run_text("A B Q R\n(random(1)) 0 X X\n", abqr())?;
                run_text("A B Q R\n(random(0)) 0 X X\n", abqr())?;
                run_text("A B Q R\n(random(0-5)) 0 X X\n", abqr()).map(|_| ())
            } },
            Regression { name: "S5 signExt is an error item", run: || expect_error_item("A B Q R\n(signExt(2,3)) 0 X X\n") },
            Regression { name: "S6 variable never assigned on the executed path is an error item", run: || {
                expect_error_item("A B Q R\nwhile(0)\nlet x=1;\nend while\n(x) 0 X X\n")
            } },
            Regression { name: "S7 64 and 63 bit wide signals", run: || {
                let sigs = vec![
                    Sig { name: "A".into(), bits: 64, kind: Kind::In(InVal::Val(0)) },
                    Sig { name: "B".into(), bits: 63, kind: Kind::In(InVal::Val(0)) },
                    Sig { name: "Q".into(), bits: 63, kind: Kind::Out },
                    Sig { name: "R".into(), bits: 64, kind: Kind::Out },
                ];
                let items = run_text("A B Q R\n5 5 5 5\n", sigs)?;
                match items.first() {
                    Some(RealItem::Row(r)) if r.inputs[0].1 == InVal::Val(5) => Ok(()),
                    other => Err(format!("64-bit input 5 arrived as {other:?}")),
                }
            } },
            Regression { name: "S8 shared input/expected column with C", run: || {
                let sigs = vec![
                    Sig { name: "CLK".into(), bits: 1, kind: Kind::In(InVal::Val(0)) },
                    Sig { name: "Q_out".into(), bits: 4, kind: Kind::In(InVal::Val(0)) },
                    Sig { name: "Q".into(), bits: 4, kind: Kind::Bidir(InVal::Z) },
                ];
                run_text("CLK Q_out\nC 5\n", sigs).map(|_| ())
            } },
        ]
    }
    fn run(&self, s: &Streams) -> CaseOut {
        run_chaos(s)
    }
}
