//! C06 - values are bound to signals by header name; every row is a complete vector.

use crate::choice::Ch;
use crate::device::*;
use crate::engine::*;
use crate::gen::*;
use crate::model::*;
use crate::print::*;
use crate::props::common::*;
use crate::real::*;

pub struct C06;

/// `changed` in X / C expansions (a fixed program): an input that is not flagged as changed
/// carries the value it had in the previous vector handed to the driver.
fn changed_in_expansions(out: &mut CaseOut) {
    out.class("changed-flags-in-expansions");
    let sigs = vec![
        Sig { name: "A".into(), bits: 1, kind: Kind::In(InVal::Val(0)) },
        Sig { name: "B".into(), bits: 4, kind: Kind::In(InVal::Val(0)) },
        Sig { name: "CLK".into(), bits: 1, kind: Kind::In(InVal::Val(0)) },
        Sig { name: "Q".into(), bits: 1, kind: Kind::Out },
    ];
    let header: Vec<String> = ["A", "B", "CLK", "Q"].iter().map(|s| s.to_string()).collect();
    let n = |v: u64| Entry::Num(v, Radix::Dec);
    let stmts = vec![
        Stmt::Row(0, vec![Entry::X(true), n(3), Entry::C(true), n(0)]),
        Stmt::Row(1, vec![n(1), Entry::X(true), Entry::C(true), n(1)]),
        Stmt::Row(2, vec![Entry::X(true), Entry::X(true), n(1), Entry::X(true)]),
        Stmt::Row(3, vec![Entry::C(true), n(3), Entry::X(true), n(0)]),
    ];
    let text = canonical(&Program { header, stmts }).text;
    let spec = DriverSpec::honest(&sigs, 5, Palette::Small);
    let Ok(tc) = load(&text, &sigs) else { return };
    let real = run_real(&tc, &sigs, &spec, &RunOpts { max_next: 60, ..Default::default() });
    for (k, item) in real.items.iter().enumerate() {
        let RealItem::Row(row) = item else { return };
        if real.log.len() <= k + 1 {
            return;
        }
        let prev = &real.log[k].inputs;
        for (name, v, changed) in &row.inputs {
            let pv = prev.iter().find(|p| p.0 == *name).map(|p| p.1);
            if !*changed && pv != Some(*v) {
                out.fail(
                    "c06:changed-false-but-differs",
                    format!("item {k} of `X 3 C 0` / `1 X C 1` / `X X 1 X` / `C 3 X 0` (inputs A B CLK): {name}={v} is flagged unchanged but the previous vector handed to the driver had {pv:?}"),
                );
                return;
            }
        }
    }
}

impl Property for C06 {
    fn id(&self) -> &'static str {
        "C06"
    }
    fn rule(&self) -> &'static str {
        "profile `binding`: signal lists of 1-10 signals (possibly without any input) in any interleaving of kinds, widths and defaults (numbers incl. 64-bit, Z); header = random subset and permutation of the legal column names (name for inputs/outputs/virtuals, name and/or name_out for bidirectionals, pairs split or partial); loop-free programs of 2-7 rows whose literal in column j of row r is a tag distinct from its neighbours' and fitting the width; Z and `(~0)` (all ones at the signal's width) in input columns, Z/X in expected columns; now and then a virtual signal called like the `_out` column of a bidirectional signal; consecutive rows repeat or change single columns or return to the value before (v, w, v); in a third of the cases the driver fails on one row's call, in some cases with virtual signals the device answers Z/X so that a row becomes an error item after its vector was handed over - the caller goes on. One case in sixteen also runs a fixed program of X and C rows (`X 3 C 0`, `1 X C 1`, `X X 1 X`, `C 3 X 0`) and applies the `changed` rule to every expanded item. Oracle: closed formulas - inputs = input-capable signals in list order, each from its column or its default; outputs = output-capable signals in list order then virtual signals, each expected value from name / name_out or X; changed==false => value equals the previous vector handed to the driver (from the log); header-omitted inputs never flagged changed. Non-trivial: header order != list order, or an omitted signal, or a split bidirectional pair, with >= 2 rows; distinct by signal list + header + rows."
    }
    fn cases(&self, tier: Tier) -> u64 {
        match tier {
            Tier::Quick => 64000,
            Tier::Thorough => 64000 * 100,
        }
    }
    fn stream_lens(&self) -> [usize; 3] {
        [300, 8, 12]
    }
    fn required_classes(&self) -> Vec<&'static str> {
        vec!["header-permuted", "input-omitted", "output-omitted", "bidir-split", "bidir-out-only", "virtual-column", "changed=false", "changed=true", "Z-default", "Z-input-entry", "row-after-error-item", "test-without-inputs", "virtual-named-like-a-bidirectional-out-column", "Z-next-to-all-ones", "column-shared-by-an-input-and-a-bidirectional", "changed-flags-in-expansions"]
    }
    fn run(&self, s: &Streams) -> CaseOut {
        let mut out = CaseOut::new();
        let mut ch = Ch::new(&s[0]);
        let mut cfg = Cfg::flow();
        // (a test may have no input at all, or no output at all - never neither)
        cfg.n_in = (0, 4);
        cfg.n_out = (1, 4);
        cfg.n_bidir = (0, 2);
        cfg.interleave = true;
        cfg.widths = Widths::Mixed;
        cfg.wild_defaults = true;
        cfg.permute_header = true;
        cfg.omit_cols = true;
        // now and then an input called `<b>_out` next to the bidirectional `<b>`: one column is
        // then that input's and the bidirectional's expected value at once
        cfg.shared_cols = true;
        // one case in twelve has 61-67 extra one-bit inputs, permuted into the header with everything else: expected
        // columns (with their X and Z cells) then also stand in columns 64 and up
        if ch.chance(1, 12) {
            cfg.wide_inputs = true;
            cfg.omit_cols = false;
            out.class("header>=65-columns");
        }
        let sigs = gen_signals(&mut ch, &cfg);
        let readable: Vec<String> =
            sigs.iter().filter(|s| s.is_output() && is_ident(&s.name)).map(|s| s.name.clone()).collect();
        let nv = if readable.is_empty() { 0 } else { ch.upto(3) };
        let mut virtuals: Vec<(String, bool)> = VIRT_NAMES.iter().take(nv).map(|n| (n.to_string(), true)).collect();
        // now and then a virtual signal is called like the `_out` column of a bidirectional
        // signal: that one column then holds the expected value of both
        if let (Some(v), Some(b)) = (virtuals.first_mut(), sigs.iter().find(|s| matches!(s.kind, Kind::Bidir(_)) && is_ident(&s.name))) {
            if ch.chance(1, 6) && !sigs.iter().any(|s| s.name == format!("{}_out", b.name)) {
                v.0 = format!("{}_out", b.name);
                out.class("virtual-named-like-a-bidirectional-out-column");
            }
        }
        let header = gen_header(&mut ch, &cfg, &sigs, &virtuals);
        let cols = col_roles(&header, &sigs);
        let mut stmts = vec![];
        for (n, _) in &virtuals {
            stmts.push(Stmt::Declare(n.clone(), Expr::Var(readable[ch.upto(readable.len())].clone())));
        }
        let nrows = 2 + ch.upto(6);
        // entry values per row/column
        #[derive(Clone, Copy, PartialEq, Debug)]
        enum Cell {
            Num(u64),
            /// written `(~0)`: all ones at whatever width the column's signal has
            Ones,
            Z,
            X,
            /// written `(7/0)`: the row cannot be evaluated
            Fail,
        }
        let mut grid: Vec<Vec<Cell>> = vec![];
        for r in 0..nrows {
            let mut row = vec![];
            for (j, col) in cols.iter().enumerate() {
                // repeat the previous row's cell in about half of the cases
                if r > 0 && ch.chance(1, 2) {
                    row.push(grid[r - 1][j]);
                    continue;
                }
                // or return to the value of the row before that (v, w, v)
                if r > 1 && ch.chance(1, 3) {
                    row.push(grid[r - 2][j]);
                    continue;
                }
                let maxv: u64 = if col.min_bits >= 16 { 0xFFFF } else { (1u64 << col.min_bits) - 1 };
                let tag = (r as u64 * 7 + j as u64 * 3 + 1 + ch.upto(3) as u64) % (maxv + 1);
                let cell = match col.role {
                    ColRole::InputOnly | ColRole::Shared => {
                        if ch.chance(1, 8) {
                            Cell::Z
                        } else if ch.chance(1, 8) {
                            Cell::Ones
                        } else {
                            Cell::Num(tag)
                        }
                    }
                    ColRole::ExpectedOnly => match ch.weighted(&[6, 1, 2]) {
                        0 => Cell::Num(tag),
                        1 => Cell::Z,
                        _ => Cell::X,
                    },
                };
                row.push(cell);
            }
            grid.push(row);
        }
        // one case in five: one row (not the last) holds `(7/0)` in a column other than the first. It is an error item
        // for which nothing is sent; the caller goes on, and the rows after it are bound like any other (nothing of the
        // half-evaluated row may be left over)
        let mut fail_row = None;
        if cols.len() >= 2 && nrows >= 2 && ch.chance(1, 5) {
            let r = ch.upto(nrows - 1);
            let j = 1 + ch.upto(cols.len() - 1);
            grid[r][j] = Cell::Fail;
            fail_row = Some(r);
            out.class("row-that-cannot-be-evaluated");
        }
        if (1..nrows).any(|r| (0..cols.len()).any(|j| matches!((grid[r - 1][j], grid[r][j]), (Cell::Z, Cell::Ones) | (Cell::Ones, Cell::Z)))) {
            out.class("Z-next-to-all-ones");
        }
        for (id, row) in grid.iter().enumerate() {
            stmts.push(Stmt::Row(
                id,
                row.iter()
                    .map(|c| match c {
                        Cell::Num(v) => Entry::Num(*v, Radix::Dec),
                        Cell::Ones => Entry::Paren(Expr::un(UnOp::BitNot, Expr::lit(0))),
                        Cell::Z => Entry::Z(true),
                        Cell::X => Entry::X(true),
                        Cell::Fail => Entry::Paren(Expr::bin(BinOp::Div, Expr::lit(7), Expr::lit(0))),
                    })
                    .collect(),
            ));
        }
        let prog = Program { header: header.clone(), stmts };
        let text = canonical(&prog).text;
        let mut dch = Ch::new(&s[2]);
        let mut spec = DriverSpec::honest(&sigs, dch.u64(), Palette::Small);
        // in a third of the cases the driver fails on one row's call; in a quarter of those with
        // virtual signals the device answers Z/X now and then, so that rows become error items
        // after their vector was handed over. The caller goes on either way.
        if dch.chance(1, 3) {
            spec.fail_at = Some(1 + dch.upto(nrows));
        }
        if !virtuals.is_empty() && dch.chance(1, 4) {
            spec.zx = 60;
        }
        render_case(&mut out, &text, &sigs, Some(&spec));

        // classes
        let canon_header = gen_header(&mut Ch::new(&[]), &Cfg { permute_header: false, omit_cols: false, ..cfg.clone() }, &sigs, &virtuals);
        let kept: Vec<&String> = canon_header.iter().filter(|h| header.contains(h)).collect();
        let permuted = kept.iter().map(|h| h.as_str()).ne(header.iter().map(|h| h.as_str()));
        let in_omitted = sigs.iter().any(|s| s.is_input() && !header.contains(&s.name));
        let out_omitted = sigs.iter().any(|s| s.expected_col().map(|c| !header.contains(&c)).unwrap_or(false));
        let split = sigs.iter().any(|s| matches!(s.kind, Kind::Bidir(_)) && header.contains(&s.name) != header.contains(&format!("{}_out", s.name)));
        let out_only = sigs.iter().any(|s| matches!(s.kind, Kind::Bidir(_)) && !header.contains(&s.name) && header.contains(&format!("{}_out", s.name)));
        // pair present but not adjacent in the header
        let apart = sigs.iter().any(|s| {
            if let Kind::Bidir(_) = s.kind {
                let a = header.iter().position(|h| *h == s.name);
                let b = header.iter().position(|h| *h == format!("{}_out", s.name));
                matches!((a, b), (Some(a), Some(b)) if (a as i64 - b as i64).abs() != 1)
            } else {
                false
            }
        });
        out.class_if(permuted, "header-permuted");
        out.class_if(in_omitted, "input-omitted");
        out.class_if(out_omitted, "output-omitted");
        out.class_if(split || apart, "bidir-split");
        out.class_if(out_only, "bidir-out-only");
        out.class_if(!virtuals.is_empty(), "virtual-column");
        out.class_if(sigs.iter().any(|s| s.default() == Some(InVal::Z)), "Z-default");
        out.class_if(!sigs.iter().any(|s| s.is_input()), "test-without-inputs");
        out.class_if(cols.iter().any(|c| c.role == ColRole::Shared), "column-shared-by-an-input-and-a-bidirectional");
        out.nontrivial = permuted || in_omitted || out_omitted || split || apart;

        let Some(tc) = load_wellformed(&mut out, "c06", &text, &sigs) else {
            return out;
        };
        // (one case in sixteen also runs a fixed program with X and C rows and looks at the
        // `changed` flags of every expanded item)
        if dch.chance(1, 16) {
            changed_in_expansions(&mut out);
            if out.is_fail() {
                return out;
            }
        }
        let real = run_real(&tc, &sigs, &spec, &RunOpts { max_next: nrows + 1, continue_after_error: true, continue_after_driver_error: true, ..Default::default() });
        if let Some(c) = &real.ctor {
            match c {
                RealItem::Panic(p) => out.fail(p.key(), format!("constructor panicked: {p}")),
                o => out.fail("c06:ctor-failed", o.short()),
            }
            return out;
        }
        let cell_at = |r: usize, name: &str| -> Option<Cell> { header.iter().position(|h| h == name).map(|j| grid[r][j]) };
        let mut after_error = false;
        for r in 0..nrows {
            // loop-free rows without C or X: item r is answered by call r + 1 (call 0 = constructor)
            // (the planted row that cannot be evaluated is an error item without a call)
            let before = real.log_len_before.get(r).copied().unwrap_or(0);
            if fail_row == Some(r) {
                match real.items.get(r) {
                    Some(RealItem::RuntimeErr(_)) if real.log_len_before.get(r + 1).copied() == Some(before) => {
                        after_error = true;
                        continue;
                    }
                    Some(RealItem::Panic(p)) => {
                        out.fail(p.key(), format!("row {r} panicked: {p}"));
                        return out;
                    }
                    _ => {
                        out.discard("failing-row-not-an-error-item-without-call");
                        return out;
                    }
                }
            }
            if !matches!(real.items.get(r), None | Some(RealItem::Panic(_))) && (before == 0 || real.log_len_before.get(r + 1).copied() != Some(before + 1)) {
                out.discard("call-protocol-broken");
                return out;
            }
            let row = match real.items.get(r) {
                Some(RealItem::Row(row)) => {
                    out.class_if(after_error, "row-after-error-item");
                    row
                }
                Some(RealItem::DriverErr(_)) if spec.fail_at == Some(before) => {
                    after_error = true;
                    continue;
                }
                // a virtual signal read Z/X in the answer to this row's call (C14)
                Some(RealItem::RuntimeErr(_)) if spec.zx > 0 && real.log[before].answer.iter().any(|a| !matches!(a.1, OutVal::Val(_))) => {
                    after_error = true;
                    continue;
                }
                Some(RealItem::Panic(p)) => {
                    out.fail(p.key(), format!("row {r} panicked: {p}"));
                    return out;
                }
                other => {
                    out.fail("c06:no-row", format!("row {r}: {:?}", other.map(|o| o.short())));
                    return out;
                }
            };
            // inputs: one per input-capable signal in list order
            let want_in: Vec<(String, InVal, bool)> = sigs
                .iter()
                .filter(|s| s.is_input())
                .map(|s| match cell_at(r, &s.name) {
                    Some(Cell::Num(v)) => (s.name.clone(), InVal::Val(v as i64), true),
                    Some(Cell::Ones) => (s.name.clone(), InVal::Val(reduce(-1, s.bits)), true),
                    Some(Cell::Z) => (s.name.clone(), InVal::Z, true),
                    Some(Cell::X) | Some(Cell::Fail) => unreachable!("no X in input columns, and the failing row is skipped"),
                    None => (s.name.clone(), s.default().unwrap(), false),
                })
                .collect();
            if row.inputs.len() != want_in.len() {
                out.fail("c06:input-count", format!("row {r}: {} input entries for {} input-capable signals", row.inputs.len(), want_in.len()));
                return out;
            }
            let prev = &real.log[before - 1].inputs; // previous vector handed to the driver (log[0] = constructor)
            for (k, ((n, v, in_header), (gn, gv, gc))) in want_in.iter().zip(&row.inputs).enumerate() {
                if n != gn || v != gv {
                    out.fail(
                        "c06:input-binding",
                        format!("row {r}: input entry {k} is {gn}={gv}, should be {n}={v} (bound by header name, list order)"),
                    );
                    return out;
                }
                out.class_if(*v == InVal::Z && *in_header, "Z-input-entry");
                if !*gc {
                    out.class("changed=false");
                    let pv = prev.iter().find(|p| p.0 == *n).map(|p| p.1);
                    if pv != Some(*gv) {
                        out.fail(
                            "c06:changed-false-but-differs",
                            format!("row {r}: {n}={gv} is flagged unchanged but the previous vector handed to the driver had {pv:?}"),
                        );
                        return out;
                    }
                } else {
                    out.class("changed=true");
                    if !*in_header {
                        out.fail("c06:omitted-input-flagged-changed", format!("row {r}: {n} is not in the header but flagged changed"));
                        return out;
                    }
                }
            }
            // outputs: output-capable signals in list order, then virtual signals (by name)
            let want_out: Vec<(String, ExpVal)> = sigs
                .iter()
                .filter(|s| s.is_output())
                .map(|s| {
                    let e = match cell_at(r, &s.expected_col().unwrap()) {
                        Some(Cell::Num(v)) => ExpVal::Val(v as i64),
                        Some(Cell::Ones) => ExpVal::Val(reduce(-1, s.bits)),
                        Some(Cell::Z) => ExpVal::Z,
                        Some(Cell::X) | None => ExpVal::X,
                        Some(Cell::Fail) => unreachable!(),
                    };
                    (s.name.clone(), e)
                })
                .collect();
            if row.outputs.len() != want_out.len() + virtuals.len() {
                out.fail(
                    "c06:output-count",
                    format!("row {r}: {} output entries for {} output-capable + {} virtual signals", row.outputs.len(), want_out.len(), virtuals.len()),
                );
                return out;
            }
            for (k, (n, e)) in want_out.iter().enumerate() {
                let g = &row.outputs[k];
                if g.name != *n || g.expected != *e {
                    out.fail(
                        "c06:expected-binding",
                        format!("row {r}: output entry {k} is {} expected {}, should be {n} expected {e}", g.name, g.expected),
                    );
                    return out;
                }
            }
            for (n, _) in &virtuals {
                let e = match cell_at(r, n) {
                    Some(Cell::Num(v)) => ExpVal::Val(v as i64),
                    Some(Cell::Ones) => ExpVal::Val(-1),
                    Some(Cell::Z) => ExpVal::Z,
                    Some(Cell::X) | None => ExpVal::X,
                    Some(Cell::Fail) => unreachable!(),
                };
                let g = row.outputs[want_out.len()..].iter().find(|o| o.name == *n);
                if g.map(|g| g.expected) != Some(e) {
                    out.fail("c06:virtual-binding", format!("row {r}: virtual {n}: {:?}, should have expected {e}", g));
                    return out;
                }
            }
        }
        if !real.ended {
            out.fail("c06:extra-rows", "more items than rows");
        }
        out
    }
}
