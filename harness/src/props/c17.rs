//! C17 - random(n) stays in range, draws once per evaluation, and resetRandom replays.
//!
//! As built (DESIGN 8.4b): self-consistent oracle on the crate's own event log (feature
//! verif-hooks), no reference interpreter.

use crate::choice::Ch;
use crate::device::*;
use crate::engine::*;
use crate::gen::*;
use crate::model::*;
use crate::probe::*;
use crate::props::common::*;
use crate::real::*;
use crate::ri::DrawEv;

pub struct C17;

pub fn random_cfg() -> Cfg {
    let mut c = Cfg::flow();
    c.allow_input_x = true;
    c.max_x = 2;
    c.max_virtual = 1;
    c.virtual_random = true;
    c.w_reset = 4;
    c.w_let = 7;
    c.max_depth = 3;
    c.allow_c = true;
    c.expr.random = true;
    // random(LAZY_SENTINEL) in unselected ite branches
    c.expr.lazy_hazards = true;
    c.expr.radix = false;
    c
}

/// bound of the probe `(random(B))` of row r / of the bits probe / of the planted virtual signal
fn probe_bound(row: usize) -> u64 {
    1_000_003 + 2 * row as u64
}
fn bits_bound(row: usize) -> u64 {
    probe_bound(row) + 1
}
/// bound of the zero-width bits entry of row r
fn zero_bound(row: usize) -> u64 {
    2_000_003 + 2 * row as u64
}
const VIRTUAL_BOUND: u64 = 999_983;

/// bound of the two rows planted around an unconditional `resetRandom;` at the very top
const RESET_BOUND: u64 = 500_009;

/// bound drawn by the bound expression of the body-less loop planted as first statement
const EMPTY_BOUND: u64 = 700_001;

/// bound drawn by the condition of the planted `while`
const WHILE_BOUND: u64 = 800_003;
const REPEAT_BOUND: u64 = 900_007;
const DIV_BOUND: u64 = 600_011;
/// bound used by the head probe (`let hq = <template>;` as first statement)
const HEAD_BOUND: u64 = 400_009;
/// bound used by the planted body-less `while((random(SPIN_BOUND) & 1))`
const SPIN_BOUND: u64 = 300_007;

struct Plan {
    /// row ids of the two planted rows `(random(RESET_BOUND))` / resetRandom / `(random(RESET_BOUND))`
    reset_pair: Option<(usize, usize)>,
    /// rows that carry `(random(B))` in RP0
    value_probe: Vec<usize>,
    /// rows that carry `bits(2, random(B+1))` in RB0 RB1
    bits_probe: Vec<usize>,
    virtual_probe: bool,
    /// the program starts with a body-less loop whose bound draws with EMPTY_BOUND
    empty_loop: bool,
    /// the program starts with a `while` whose condition draws with WHILE_BOUND, three times
    while_probe: bool,
    /// the text starts with `loop(rz, 2)` / `resetRandom;` / row showing random(RESET_BOUND)
    loop_reset: Option<usize>,
    /// rows that carry `bits(0, random(Z_r))` in front
    zero_probe: Vec<usize>,
    /// a planted `repeat(3)` over a row of literals and `(ite(1, random(REPEAT_BOUND), 0))`
    repeat_probe: Option<usize>,
    /// the first statement is `let dq = ((random(DIV_BOUND)) / 0);`
    failing_division: bool,
    /// the first statement is `let hq = <template>;`: the bounds of the draws it makes, in order
    head_probe: Option<Vec<u64>>,
    /// a top-level `while((random(SPIN_BOUND) & 1))` without any statement in its body
    spin_while: bool,
}

/// Add the probe inputs RP0 (64 bit) and RB0, RB1 (1 bit each) in front of the header; rows
/// that carry a random probe lose their X / C entries, so that one evaluation is one item.
fn plant(b: &mut Built, ch: &mut Ch) -> Plan {
    let mut plan = Plan { reset_pair: None, value_probe: vec![], bits_probe: vec![], virtual_probe: false, empty_loop: false, while_probe: false, loop_reset: None, zero_probe: vec![], repeat_probe: None, failing_division: false, head_probe: None, spin_while: false };
    for (k, (n, bits)) in [("RP0", 64usize), ("RB0", 1), ("RB1", 1)].iter().enumerate() {
        b.sigs.insert(k, Sig { name: n.to_string(), bits: *bits, kind: Kind::In(InVal::Val(0)) });
        b.prog.header.insert(k, n.to_string());
    }
    let cols = col_roles(&b.prog.header, &b.sigs);
    fn go(bl: &mut [Stmt], ch: &mut Ch, plan: &mut Plan, cols: &[Col]) {
        for s in bl {
            match s {
                Stmt::Row(id, es) | Stmt::Repeat(_, id, es) => {
                    let vp = ch.chance(1, 2);
                    let bp = ch.chance(1, 3);
                    // In half of the probed rows X / C entries are replaced (one evaluation = one
                    // item); in the others they stay: all items of one evaluation then show the
                    // same drawn value, and the draws are counted per evaluation.
                    if (vp || bp) && ch.chance(1, 2) {
                        let mut col = 3;
                        for e in es.iter_mut() {
                            let w = e.width();
                            let input = cols.get(col).map(|c| c.role != ColRole::ExpectedOnly).unwrap_or(false);
                            if matches!(e, Entry::C(_)) || (matches!(e, Entry::X(_)) && input) {
                                *e = Entry::Num(0, Radix::Dec);
                            }
                            col += w;
                        }
                    }
                    if bp {
                        es.insert(0, Entry::Bits(2, Expr::Random(Box::new(Expr::lit(bits_bound(*id))))));
                        plan.bits_probe.push(*id);
                    } else {
                        es.insert(0, Entry::Num(0, Radix::Dec));
                        es.insert(0, Entry::Num(0, Radix::Dec));
                    }
                    if vp {
                        // (one probe in three sits inside another call: `ite(1, random(B), 0)`)
                        let r = Expr::Random(Box::new(Expr::lit(probe_bound(*id))));
                        let r = if ch.chance(1, 3) { Expr::Ite(Box::new(Expr::lit(1)), Box::new(r), Box::new(Expr::lit(0))) } else { r };
                        es.insert(0, Entry::Paren(r));
                        plan.value_probe.push(*id);
                    } else {
                        es.insert(0, Entry::Num(0, Radix::Dec));
                    }
                    // a bits entry of width 0 fills no column; its expression is evaluated all the
                    // same, once per evaluation of the row
                    if ch.chance(1, 6) {
                        es.insert(0, Entry::Bits(0, Expr::Random(Box::new(Expr::lit(zero_bound(*id))))));
                        plan.zero_probe.push(*id);
                    }
                }
                Stmt::Loop(_, _, inner) | Stmt::While(_, inner) => go(inner, ch, plan, cols),
                _ => {}
            }
        }
    }
    go(&mut b.prog.stmts, ch, &mut plan, &cols);
    // In a quarter of the cases the first statement (after the planted reset pair, if any) is a loop without any statement in
    // its body whose bound draws: `loop(ez, (random(EMPTY_BOUND) & 1))` / `end loop`. The bound
    // of a loop is evaluated once on entry whatever the body holds, so the run's log must show
    // exactly one draw with that bound.
    if ch.chance(1, 4) {
        let bound = Expr::bin(BinOp::And, Expr::Random(Box::new(Expr::lit(EMPTY_BOUND))), Expr::lit(1));
        b.prog.stmts.insert(0, Stmt::Loop("ez".into(), bound, vec![]));
        plan.empty_loop = true;
    }
    // In a quarter of the cases: `let wq = 2;` / `while((wq + (random(WHILE_BOUND) & 0)))` /
    // `let wq = (wq - 1);` / `end while` as first statements. The condition is evaluated once
    // before every pass and once more when it ends the loop: 2, 1, 0 - exactly three draws.
    if ch.chance(1, 4) {
        let cond = Expr::Group(Box::new(Expr::bin(
            BinOp::Add,
            Expr::var("wq"),
            Expr::Group(Box::new(Expr::bin(BinOp::And, Expr::Random(Box::new(Expr::lit(WHILE_BOUND))), Expr::lit(0)))),
        )));
        let step = Stmt::Let("wq".into(), Expr::Group(Box::new(Expr::bin(BinOp::Sub, Expr::var("wq"), Expr::lit(1)))));
        b.prog.stmts.insert(0, Stmt::While(cond, vec![step]));
        b.prog.stmts.insert(0, Stmt::Let("wq".into(), Expr::lit(2)));
        plan.while_probe = true;
    }
    // One case in six: `while((random(SPIN_BOUND) & 1))` / `end while` as first statement - nothing in its body, nothing
    // changes between two evaluations of its condition except the draw itself. It is left when a draw is even, and only
    // then: all draws with that bound but the last are odd, the last is even.
    if ch.chance(1, 6) {
        let cond = Expr::Group(Box::new(Expr::bin(BinOp::And, Expr::Random(Box::new(Expr::lit(SPIN_BOUND))), Expr::lit(1))));
        b.prog.stmts.insert(0, Stmt::While(cond, vec![]));
        plan.spin_while = true;
    }
    // In a third of the cases the program starts with: a row showing random(RESET_BOUND),
    // `resetRandom;`, a second such row. Both are executed unconditionally and the first draw
    // of the run is the first row's, so the second row must show the same value.
    // In a fifth of the cases a `repeat(3)` over a row of literals whose only expression is
    // `(ite(1, random(REPEAT_BOUND), 0))` is put at a top-level position: three evaluations,
    // three draws, whatever the row looks like.
    if ch.chance(1, 5) {
        let id = b.prog.row_count();
        let mut es: Vec<Entry> = vec![
            Entry::Paren(Expr::Ite(Box::new(Expr::lit(1)), Box::new(Expr::Random(Box::new(Expr::lit(REPEAT_BOUND)))), Box::new(Expr::lit(0)))),
            Entry::Num(0, Radix::Dec),
            Entry::Num(0, Radix::Dec),
        ];
        for c in cols.iter().skip(3) {
            es.push(if c.role == ColRole::ExpectedOnly { Entry::X(true) } else { Entry::Num(0, Radix::Dec) });
        }
        let at = ch.upto(b.prog.stmts.len() + 1);
        b.prog.stmts.insert(at, Stmt::Repeat(Expr::lit(3), id, es));
        plan.repeat_probe = Some(id);
    }
    let which = ch.upto(6);
    if which >= 4 && ch.chance(1, 2) {
        // (where no reset construct is planted:) the first statement is
        // `let dq = ((random(DIV_BOUND)) / 0);` - it cannot be evaluated, and its dividend is
        // evaluated all the same: one error item, one draw; the caller goes on
        // (one time in two it is a row instead: `(random(DIV_BOUND))` in its first column, `(7 / 0)` in its second - the
        // draw is made, the row fails afterwards, and the draw stays made: the next one is the generator's next)
        if ch.chance(1, 2) {
            let id = b.prog.row_count();
            let mut es: Vec<Entry> = vec![
                Entry::Paren(Expr::Random(Box::new(Expr::lit(DIV_BOUND)))),
                Entry::Paren(Expr::bin(BinOp::Div, Expr::lit(7), Expr::lit(0))),
                Entry::Num(0, Radix::Dec),
            ];
            for c in cols.iter().skip(3) {
                es.push(if c.role == ColRole::ExpectedOnly { Entry::X(true) } else { Entry::Num(0, Radix::Dec) });
            }
            b.prog.stmts.insert(0, Stmt::Row(id, es));
        } else {
            b.prog.stmts.insert(0, Stmt::Let("dq".into(), Expr::Group(Box::new(Expr::bin(BinOp::Div, Expr::Group(Box::new(Expr::Random(Box::new(Expr::lit(DIV_BOUND))))), Expr::lit(0))))));
        }
        plan.failing_division = true;
    } else if which >= 4 {
        // (or, instead:) the first statement is `let hq = <template>;` where the template's draws are known whatever
        // values are drawn: every operand of a unary or binary operator is evaluated (only `ite` is lazy), the smallest
        // legal bound 2 included, so the run's log must begin with exactly these draws (compared as a multiset: the order of operand evaluation is not stated anywhere).
        let r = |b: u64| Expr::Random(Box::new(Expr::lit(b)));
        let h = HEAD_BOUND;
        let (e, bounds): (Expr, Vec<u64>) = match ch.upto(15) {
            0 => (r(2), vec![2]),
            1 => (Expr::bin(BinOp::And, Expr::lit(0), r(h)), vec![h]),
            2 => (Expr::bin(BinOp::Mul, Expr::lit(0), r(h)), vec![h]),
            3 => (Expr::bin(BinOp::Or, Expr::un(UnOp::BitNot, Expr::lit(0)), r(h)), vec![h]),
            4 => (Expr::bin(BinOp::Add, r(2), r(3)), vec![2, 3]),
            5 => (Expr::un(UnOp::Neg, r(2)), vec![2]),
            6 => (Expr::bin(BinOp::Add, Expr::Group(Box::new(Expr::bin(BinOp::And, r(h), Expr::lit(0)))), r(2)), vec![h, 2]),
            7 => (Expr::bin(BinOp::Shr, Expr::lit(0), r(h)), vec![h]),
            8 => (Expr::un(UnOp::Not, r(2)), vec![2]),
            9 => (Expr::Ite(Box::new(r(2)), Box::new(r(h)), Box::new(r(h))), vec![2, h]),
            10 => (Expr::bin(BinOp::Rem, Expr::lit(0), r(h)), vec![h]),
            11 => (Expr::bin(BinOp::Lt, r(h), r(2)), vec![h, 2]),
            // (two operands that are the same expression, token for token, are two evaluations)
            12 => (Expr::bin(BinOp::Xor, r(h), r(h)), vec![h, h]),
            13 => (Expr::bin(BinOp::Eq, r(2), r(2)), vec![2, 2]),
            _ => (Expr::bin(BinOp::Sub, Expr::Group(Box::new(Expr::bin(BinOp::Add, r(h), Expr::lit(1)))), Expr::Group(Box::new(Expr::bin(BinOp::Add, r(h), Expr::lit(1))))), vec![h, h]),
        };
        b.prog.stmts.insert(0, Stmt::Let("hq".into(), Expr::Group(Box::new(e))));
        plan.head_probe = Some(bounds);
    }
    if which == 2 || which == 3 {
        // (or, instead:) the very first statements of the text are `loop(rz, 2)` / `resetRandom;`
        // / a row showing random(RESET_BOUND) / `end loop`: no `random` stands before that
        // `resetRandom;` in the text, yet in the second pass it restarts a generator that has been
        // drawn from - both passes show the same value.
        let id = b.prog.row_count();
        let mut es: Vec<Entry> = vec![Entry::Paren(Expr::Random(Box::new(Expr::lit(RESET_BOUND)))), Entry::Num(0, Radix::Dec), Entry::Num(0, Radix::Dec)];
        for c in cols.iter().skip(3) {
            es.push(if c.role == ColRole::ExpectedOnly { Entry::X(true) } else { Entry::Num(0, Radix::Dec) });
        }
        // (`which == 3`: the `resetRandom;` is the last statement of the body instead)
        let body = if which == 2 { vec![Stmt::ResetRandom, Stmt::Row(id, es)] } else { vec![Stmt::Row(id, es), Stmt::ResetRandom] };
        b.prog.stmts.insert(0, Stmt::Loop("rz".into(), Expr::lit(2), body));
        plan.loop_reset = Some(id);
    }
    if which < 2 {
        let next_id = b.prog.row_count();
        let mk = |id: usize| -> Stmt {
            let mut es: Vec<Entry> = vec![Entry::Paren(Expr::Random(Box::new(Expr::lit(RESET_BOUND)))), Entry::Num(0, Radix::Dec), Entry::Num(0, Radix::Dec)];
            for c in cols.iter().skip(3) {
                es.push(if c.role == ColRole::ExpectedOnly { Entry::X(true) } else { Entry::Num(0, Radix::Dec) });
            }
            Stmt::Row(id, es)
        };
        b.prog.stmts.insert(0, mk(next_id + 1));
        b.prog.stmts.insert(0, Stmt::ResetRandom);
        b.prog.stmts.insert(0, mk(next_id));
        plan.reset_pair = Some((next_id, next_id + 1));
    }
    if ch.chance(1, 2) && !b.analysis.virtuals.iter().any(|v| v == "VR") {
        // (behind the planted loop, if there is one: nothing that draws stands before it)
        let at = if plan.loop_reset.is_some() { 1 } else { 0 };
        b.prog.stmts.insert(at, Stmt::Declare("VR".into(), Expr::Random(Box::new(Expr::lit(VIRTUAL_BOUND)))));
        plan.virtual_probe = true;
    }
    b.cols = col_roles(&b.prog.header, &b.sigs);
    b.analysis = analyse(&b.prog);
    plan
}

impl Property for C17 {
    fn id(&self) -> &'static str {
        "C17"
    }
    fn rule(&self) -> &'static str {
        "profile `random`: flow programs with random(e) in row entries, let, bounds, ite conditions and branches, nested in its own argument, in a virtual signal; bounds >= 2 by construction (2, small, (e&7)+2, 2^k up to 2^62); resetRandom at any statement position; seeds {0, 1, u64::MAX, random} forced through the seed hook; planted probes: `(random(B_r))` in a 64-bit input and `bits(2, random(B_r+1))` in two 1-bit inputs with a bound unique to the source row r (half of such rows keep their X/C entries: the g items of one evaluation then all show the one value drawn for it), `bits(0, random(Z_r))` in front of one row in six (no column, still one draw per evaluation), a planted `repeat(3)` over a row of literals and `(ite(1, random(900007), 0))` (three evaluations, three draws), `let dq = ((random(600011)) / 0);` as first statement where no reset construct is planted (one error item, one draw: the dividend is evaluated; the caller goes on) or instead `let hq = <template>;` with one of twelve templates whose draws are known whatever is drawn (`random(2)`, `0 & random(H)`, `0 * random(H)`, `~0 | random(H)`, `random(2) + random(3)`, `-random(2)`, `!random(2)`, `0 >> random(H)`, `0 % random(H)`, `ite(random(2), random(H), random(H))`, ...: every operand of an operator is evaluated, the smallest legal bound included, so the log must begin with exactly those bounds, in whatever order), `declare VR = random(999983)`, a `row / resetRandom; / row` triple with random(500009) at the top (or instead, as the very first statements of the text, `loop(rz, 2)` / `resetRandom;` / such a row / `end loop`, where no `random` stands before the `resetRandom;` in the text: both passes show the same value), a body-less `loop(ez, (random(700001) & 1))` as first statement (its bound is evaluated once on entry: exactly one draw with that bound), a body-less `while((random(S) & 1))` (one case in six: left when a draw is even and only then), a `while` counting a variable down from 2 whose condition draws (evaluated for 2, 1, 0: exactly three draws), and random(7919) in unselected branches of constant-condition ite. Oracle (self-consistent, on the crate's own event log): every random evaluation is exactly one generator draw (GenDraw, Draw pairs), 0 <= value < bound; after every Reset the values repeat those drawn from the start of the run over the longest common prefix of the bound sequences; the same seed gives the same log; no draw with bound 7919 (lazy ite); for each probed row the number of draws with its bound equals the number of its evaluations (items / g, the last one possibly cut by the cap), and each item shows exactly the value drawn for its evaluation (resp. its two low bits): one draw per evaluation, used as if it were a literal; VR is drawn once per checked row and shows the drawn value; and a straight-line control program that performs the same sequence of random(bound) / resetRandom with the same seed draws exactly the same values (the draws are those of the run's generator, in order). In a third of the cases two or three iterators over the same test are alive at once and stepped alternately by a generated schedule (same seed, same script): each yields exactly the items of the run on its own (every run has its own generator). Non-trivial: >= 2 draws and (a reset followed by a draw, or a checked probe, or a lazy sentinel present); distinct by source + signals + driver + seed."
    }
    fn cases(&self, tier: Tier) -> u64 {
        match tier {
            Tier::Quick => 48000,
            Tier::Thorough => 48000 * 100,
        }
    }
    fn required_classes(&self) -> Vec<&'static str> {
        vec!["draws>=2", "reset-then-draw", "bound=2", "bound>=2^32", "virtual-probe-checked", "seed=0", "seed=max", "replayed-prefix>=2", "value-probe-checked", "bits-probe-checked", "lazy-sentinel-planted", "probe-in-loop", "control-program-compared", "planted-reset-checked", "empty-loop-bound-draw-checked", "while-condition-draws-checked", "interleaved-iterators-compared", "probe-in-expanded-row", "planted-reset-in-loop-checked", "zero-width-bits-probe-checked", "planted-repeat-checked", "planted-failing-division-checked", "head-probe-checked", "spin-while-checked", "spin-while-went-round"]
    }
    fn run(&self, s: &Streams) -> CaseOut {
        let mut out = CaseOut::new();
        let mut built = gen_case(&mut Ch::new(&s[0]), &random_cfg());
        parenthesise_program(&mut built.prog.stmts);
        let mut lch = Ch::new(&s[1]);
        let plan = plant(&mut built, &mut lch);
        let rows = instrument(&mut built, &mut lch, 0, ProbePref::Vars, &[]);
        let text = built_text(&built);
        let mut dch = Ch::new(&s[2]);
        let spec = gen_spec(
            &mut dch,
            &built.sigs,
            &SpecCfg { palette: Palette::Small, zx: 0, free_layout: false, must_supply: built.must_supply(), both_driver_types: true },
        );
        let seed = match dch.upto(4) {
            0 => 0,
            1 => 1,
            2 => u64::MAX,
            _ => dch.u64(),
        };
        render_case(&mut out, &text, &built.sigs, Some(&spec));
        out.put("seed", format!("{seed}"));
        let f = feats(&built);
        feat_classes(&mut out, &f);
        out.class_if(seed == 0, "seed=0");
        out.class_if(seed == u64::MAX, "seed=max");
        let mut lazy = false;
        built.prog.visit_exprs(&mut |e| {
            if matches!(e, Expr::Random(b) if matches!(**b, Expr::Lit(LAZY_SENTINEL, _))) {
                lazy = true
            }
        });
        out.class_if(lazy, "lazy-sentinel-planted");
        let Some(tc) = load_wellformed(&mut out, "c17", &text, &built.sigs) else {
            return out;
        };
        let opts = RunOpts { max_next: 300, seed: Some(seed), continue_after_error: plan.failing_division, ..Default::default() };
        let real = run_real(&tc, &built.sigs, &spec, &opts);
        if let Some(RealItem::Panic(p)) = real.ctor.as_ref().or(real.items.last()) {
            out.fail(p.key(), format!("the run panicked: {p}"));
            return out;
        }
        if real.new_runs != 1 {
            out.fail("c17:generators", format!("one run created {} generators", real.new_runs));
            return out;
        }
        // --- the log alone
        let log = &real.draws;
        let mut segments: Vec<Vec<(i64, i64)>> = vec![vec![]];
        let mut k = 0;
        while k < log.len() {
            match &log[k] {
                DrawEv::Reset => {
                    segments.push(vec![]);
                    k += 1;
                }
                DrawEv::GenDraw => match log.get(k + 1) {
                    Some(DrawEv::Draw { bound, value }) => {
                        if *bound >= 2 && !(0 <= *value && value < bound) {
                            out.fail("c17:out-of-range", format!("random({bound}) returned {value}"));
                            return out;
                        }
                        segments.last_mut().unwrap().push((*bound, *value));
                        k += 2;
                    }
                    other => {
                        out.fail(
                            "c17:draws-per-evaluation",
                            format!("event {k}: a draw from the run's generator is followed by {other:?}, not by the result of one random evaluation (more than one draw per evaluation?); log: {:?}", &log[k.saturating_sub(2)..(k + 4).min(log.len())]),
                        );
                        return out;
                    }
                },
                DrawEv::Draw { bound, value } => {
                    out.fail(
                        "c17:draws-per-evaluation",
                        format!("event {k}: random({bound}) = {value} without a draw from the run's generator right before it (a generator other than the run's?)"),
                    );
                    return out;
                }
            }
        }
        let all: Vec<(i64, i64)> = segments.iter().flatten().copied().collect();
        // lazy ite
        if all.iter().any(|(b, _)| *b == LAZY_SENTINEL as i64) {
            out.fail("c17:ite-not-lazy", format!("a draw with bound {LAZY_SENTINEL} happened; random({LAZY_SENTINEL}) only occurs in unselected branches of ite"));
            return out;
        }
        if let Some(bounds) = &plan.head_probe {
            out.class("head-probe-checked");
            // (compared as multisets: in which order the operands of an operator are evaluated is nobody's statement)
            let mut got: Vec<i64> = all.iter().take(bounds.len()).map(|(b, _)| *b).collect();
            let mut want: Vec<i64> = bounds.iter().map(|b| *b as i64).collect();
            got.sort();
            want.sort();
            if !real.items.is_empty() && got != want {
                out.fail(
                    "c17:head-probe-draws",
                    format!("the program starts with a `let hq = ..;` whose evaluation makes draws with the bounds {want:?} (in whatever order), whatever values are drawn; the run's log begins with draws of bounds {got:?}"),
                );
                return out;
            }
        }
        if plan.spin_while {
            let spins: Vec<i64> = all.iter().filter(|(b, _)| *b == SPIN_BOUND as i64).map(|(_, v)| *v).collect();
            out.class("spin-while-checked");
            out.class_if(spins.len() >= 2, "spin-while-went-round");
            let ok = !spins.is_empty() && spins.iter().rev().skip(1).all(|v| v & 1 == 1) && spins.last().map(|v| v & 1 == 0).unwrap_or(false);
            if !real.items.is_empty() && !ok {
                out.fail(
                    "c17:spin-while",
                    format!("the program holds a top-level `while((random({SPIN_BOUND}) & 1))` without any statement in its body: it is left when a draw is even and only then, so all draws with that bound but the last are odd and the last is even; the log has {spins:?} and the run's first item is {:?}", real.items.first().map(|i| i.short())),
                );
                return out;
            }
        }
        // resetRandom replays
        let mut replayed = 0;
        for (si, seg) in segments.iter().enumerate().skip(1) {
            for (j, ((b0, v0), (b, v))) in segments[0].iter().zip(seg).enumerate() {
                if b0 != b {
                    break;
                }
                if v0 != v {
                    out.fail(
                        "c17:reset-does-not-replay",
                        format!("after reset #{si}, draw {j} with bound {b} gave {v}, the run's draw {j} from the start (same bounds so far) gave {v0}"),
                    );
                    return out;
                }
                replayed = replayed.max(j + 1);
            }
        }
        // same seed, same log
        let again = run_real(&tc, &built.sigs, &spec, &opts);
        if again.draws != real.draws {
            out.fail("c17:same-seed-different-draws", "two runs with the same seed and script produced different random logs");
            return out;
        }
        // --- "the run's generator": two or three iterators over the same test, alive at the same
        // time and stepped alternately, each draw from their own generator - every one of them
        // yields exactly the items of the run above (same seed, same script)
        if dch.chance(1, 3) {
            let n = 2 + dch.upto(2);
            let sched: Vec<usize> = (0..dch.upto(60)).map(|_| dch.upto(n)).collect();
            match run_interleaved(&tc, &built.sigs, &spec, n, &sched, seed, 120) {
                Err(p) => {
                    out.fail(p.key(), format!("constructing {n} iterators over one test panicked: {p}"));
                    return out;
                }
                Ok(got) => {
                    for (i, (items, _)) in got.iter().enumerate() {
                        if items.len() >= 2 && f.randoms > 0 {
                            out.class("interleaved-iterators-compared");
                        }
                        for (k, item) in items.iter().enumerate() {
                            if let RealItem::Panic(p) = item {
                                out.fail(p.key(), format!("iterator {i} of {n} (interleaved) panicked at item {k}: {p}"));
                                return out;
                            }
                            if real.items.get(k) != Some(item) {
                                out.fail(
                                    "c17:iterators-share-a-generator",
                                    format!(
                                        "iterator {i} of {n} over the same test (stepped alternately, schedule {sched:?}, same seed and script): item {k} is {}, the run on its own yields {:?}",
                                        item.short(),
                                        real.items.get(k).map(|x| x.short())
                                    ),
                                );
                                return out;
                            }
                        }
                    }
                }
            }
        }
        // --- planted probes
        let tag_of = |r: &RealRow| match r.inputs.iter().find(|e| e.0 == "TAG").map(|e| e.1) {
            Some(InVal::Val(t)) => Some((t - 1) as usize),
            _ => None,
        };
        let get = |r: &RealRow, n: &str| match r.inputs.iter().find(|e| e.0 == n).map(|e| e.1) {
            Some(InVal::Val(v)) => Some(v),
            _ => None,
        };
        let row_items: Vec<&RealRow> = real.items.iter().filter_map(|i| if let RealItem::Row(r) = i { Some(r) } else { None }).collect();
        // (the planted failing division is the run's first item; nothing else may be an error)
        let skip_first = plan.failing_division && matches!(real.items.first(), Some(RealItem::RuntimeErr(_)));
        let clean = real.items.iter().skip(skip_first as usize).all(|i| matches!(i, RealItem::Row(_)));
        if plan.failing_division {
            let n = all.iter().filter(|(b, _)| *b == DIV_BOUND as i64).count();
            out.class("planted-failing-division-checked");
            if !skip_first {
                out.fail("c17:division-by-zero-not-an-error", format!("the program starts with `let dq = ((random({DIV_BOUND})) / 0);` (or a row `(random({DIV_BOUND})) (7 / 0) ..`): the first item must be an error item, got {:?}", real.items.first().map(|i| i.short())));
                return out;
            }
            if n != 1 {
                out.fail(
                    "c17:dividend-not-evaluated",
                    format!("the program starts with `let dq = ((random({DIV_BOUND})) / 0);` (or a row `(random({DIV_BOUND})) (7 / 0) ..`): the draw is made before the statement fails, so one draw with that bound is due; the log has {n}"),
                );
                return out;
            }
        }
        if let Some(rid) = plan.repeat_probe {
            let items_n = row_items.iter().filter(|r| tag_of(r) == Some(rid)).count();
            let draws_n = all.iter().filter(|(b, _)| *b == REPEAT_BOUND as i64).count();
            if items_n > 0 && clean {
                out.class("planted-repeat-checked");
                if draws_n != items_n {
                    out.fail(
                        "c17:repeat-row-draws",
                        format!("the planted `repeat(3)` over a row of literals and (ite(1, random({REPEAT_BOUND}), 0)) yielded {items_n} items but {draws_n} draws with that bound: every pass evaluates the row again"),
                    );
                    return out;
                }
                let shown: Vec<i64> = row_items.iter().filter(|r| tag_of(r) == Some(rid)).filter_map(|r| get(r, "RP0")).collect();
                let drawn: Vec<i64> = all.iter().filter(|(b, _)| *b == REPEAT_BOUND as i64).map(|(_, v)| *v).collect();
                if shown != drawn {
                    out.fail("c17:repeat-row-draws", format!("the planted repeat row shows {shown:?}, the draws with its bound are {drawn:?}"));
                    return out;
                }
            }
        }
        if let Some((r1, r2)) = plan.reset_pair {
            let first = |rid: usize| row_items.iter().find(|r| tag_of(r) == Some(rid)).and_then(|r| get(r, "RP0"));
            if let (Some(a), Some(b)) = (first(r1), first(r2)) {
                out.class("planted-reset-checked");
                if a != b {
                    out.fail(
                        "c17:reset-does-not-restart",
                        format!("the program starts with a row showing random({RESET_BOUND}) = {a}, then `resetRandom;`, then a second such row, which shows {b}: after the restart the generator must repeat the run's first draw"),
                    );
                    return out;
                }
            }
        }
        if plan.empty_loop && (real.ended || !real.items.is_empty()) {
            let n = all.iter().filter(|(b, _)| *b == EMPTY_BOUND as i64).count();
            out.class("empty-loop-bound-draw-checked");
            if n != 1 {
                out.fail(
                    "c17:empty-loop-bound-draws",
                    format!("the program starts with `loop(ez, (random({EMPTY_BOUND}) & 1))` / `end loop`: its bound is evaluated once on entry, so exactly one draw with that bound is due; the run's log has {n}"),
                );
                return out;
            }
        }
        if let Some(rid) = plan.loop_reset {
            let shown: Vec<i64> = row_items.iter().filter(|r| tag_of(r) == Some(rid)).filter_map(|r| get(r, "RP0")).collect();
            if shown.len() == 2 {
                out.class("planted-reset-in-loop-checked");
                if shown[0] != shown[1] {
                    out.fail(
                        "c17:reset-does-not-restart",
                        format!("the program starts with `loop(rz, 2)` / `resetRandom;` / a row showing random({RESET_BOUND}) / `end loop`: the two passes show {} and {}; the second `resetRandom;` restarts the generator, so the draw repeats the first pass's", shown[0], shown[1]),
                    );
                    return out;
                }
            }
        }
        if plan.while_probe && (real.ended || !real.items.is_empty()) {
            let n = all.iter().filter(|(b, _)| *b == WHILE_BOUND as i64).count();
            out.class("while-condition-draws-checked");
            if n != 3 {
                out.fail(
                    "c17:while-condition-draws",
                    format!("the program starts with `let wq = 2;` and a while loop over `(wq + (random({WHILE_BOUND}) & 0))` that counts wq down: the condition is evaluated for 2, 1 and 0, so exactly three draws with that bound are due; the run's log has {n}"),
                );
                return out;
            }
        }
        if clean {
            for rid in &plan.value_probe {
                let shown: Vec<i64> = row_items.iter().filter(|r| tag_of(r) == Some(*rid)).filter_map(|r| get(r, "RP0")).collect();
                let drawn1: Vec<i64> = all.iter().filter(|(b, _)| *b == probe_bound(*rid) as i64).map(|(_, v)| *v).collect();
                // one evaluation yields `group` items (X / C expansion), all from one draw
                let g = rows.get(rid).map(|i| i.group.max(1)).unwrap_or(1);
                let drawn: Vec<i64> = drawn1.iter().flat_map(|v| std::iter::repeat(*v).take(g)).take(shown.len().max(drawn1.len().saturating_sub(1) * g + 1).min(drawn1.len() * g)).collect();
                if !shown.is_empty() {
                    out.class("value-probe-checked");
                    out.class_if(g > 1, "probe-in-expanded-row");
                    out.class_if(rows.get(rid).map(|i| i.depth > 0).unwrap_or(false), "probe-in-loop");
                }
                if shown != drawn {
                    out.fail(
                        "c17:probe-value-or-count",
                        format!(
                            "source row #{rid} holds (random({})): its {} items show {:?}, the run's generator was drawn {} times for that bound: {:?} (exactly one draw per evaluation, and the drawn value is what the row must show)",
                            probe_bound(*rid),
                            shown.len(),
                            shown,
                            drawn.len(),
                            drawn
                        ),
                    );
                    return out;
                }
            }
            for rid in &plan.zero_probe {
                let items_n = row_items.iter().filter(|r| tag_of(r) == Some(*rid)).count();
                let draws_n = all.iter().filter(|(b, _)| *b == zero_bound(*rid) as i64).count();
                let g = rows.get(rid).map(|i| i.group.max(1)).unwrap_or(1);
                if items_n > 0 {
                    out.class("zero-width-bits-probe-checked");
                }
                // evaluations = items / g, the last one possibly cut by the cap
                if draws_n != items_n.div_ceil(g) {
                    out.fail(
                        "c17:zero-width-bits-draws",
                        format!("source row #{rid} starts with bits(0, random({})): it yielded {items_n} items ({g} per evaluation), so {} draws with that bound are due (the expression is evaluated once per evaluation of the row, whatever the width); the log has {draws_n}", zero_bound(*rid), items_n.div_ceil(g)),
                    );
                    return out;
                }
            }
            for rid in &plan.bits_probe {
                let shown: Vec<(i64, i64)> = row_items
                    .iter()
                    .filter(|r| tag_of(r) == Some(*rid))
                    .filter_map(|r| Some((get(r, "RB0")?, get(r, "RB1")?)))
                    .collect();
                let drawn1: Vec<(i64, i64)> = all.iter().filter(|(b, _)| *b == bits_bound(*rid) as i64).map(|(_, v)| ((v >> 1) & 1, v & 1)).collect();
                let g = rows.get(rid).map(|i| i.group.max(1)).unwrap_or(1);
                let drawn: Vec<(i64, i64)> = drawn1.iter().flat_map(|v| std::iter::repeat(*v).take(g)).take(shown.len().max(drawn1.len().saturating_sub(1) * g + 1).min(drawn1.len() * g)).collect();
                if !shown.is_empty() {
                    out.class("bits-probe-checked");
                }
                if shown != drawn {
                    out.fail(
                        "c17:bits-probe-value-or-count",
                        format!(
                            "source row #{rid} holds bits(2, random({})): its items show the bit pairs {:?}, the draws for that bound give {:?} (one draw per evaluation of the entry, both bits from the same draw)",
                            bits_bound(*rid),
                            shown,
                            drawn
                        ),
                    );
                    return out;
                }
            }
            if plan.virtual_probe {
                let shown: Vec<OutVal> = row_items
                    .iter()
                    .filter(|r| !r.outputs.is_empty())
                    .filter_map(|r| r.outputs.iter().find(|o| o.name == "VR").map(|o| o.output))
                    .collect();
                let drawn: Vec<OutVal> = all.iter().filter(|(b, _)| *b == VIRTUAL_BOUND as i64).map(|(_, v)| OutVal::Val(*v)).collect();
                if !shown.is_empty() {
                    out.class("virtual-probe-checked");
                }
                if shown != drawn {
                    out.fail(
                        "c17:virtual-probe-value-or-count",
                        format!("declare VR = random({VIRTUAL_BOUND}): the {} checked rows show {:?}, the draws for that bound are {:?}", shown.len(), shown, drawn),
                    );
                    return out;
                }
            }
        }
        // --- control program: the same sequence of random(bound) / resetRandom, straight-line
        if !all.is_empty() && log.len() <= 4000 {
            let mut stmts = vec![];
            for ev in log {
                match ev {
                    DrawEv::Draw { bound, .. } if *bound >= 2 => stmts.push(Stmt::Let("t".into(), Expr::Random(Box::new(Expr::lit(*bound as u64))))),
                    DrawEv::Reset => stmts.push(Stmt::ResetRandom),
                    _ => {}
                }
            }
            stmts.push(Stmt::Row(0, vec![Entry::Num(0, Radix::Dec)]));
            let csigs = vec![Sig { name: "A".into(), bits: 1, kind: Kind::In(InVal::Val(0)) }];
            let cprog = Program { header: vec!["A".into()], stmts };
            let ctext = crate::print::canonical(&cprog).text;
            if let Ok(ctc) = load(&ctext, &csigs) {
                let cspec = DriverSpec::honest(&csigs, 1, Palette::Small);
                let control = run_real(&ctc, &csigs, &cspec, &RunOpts { max_next: 3, seed: Some(seed), ..Default::default() });
                let cvals: Vec<(i64, i64)> = control
                    .draws
                    .iter()
                    .filter_map(|e| if let DrawEv::Draw { bound, value } = e { Some((*bound, *value)) } else { None })
                    .collect();
                let mvals: Vec<(i64, i64)> = all.iter().filter(|(b, _)| *b >= 2).copied().collect();
                out.class("control-program-compared");
                if cvals != mvals {
                    let j = cvals.iter().zip(&mvals).position(|(a, b)| a != b).unwrap_or(cvals.len().min(mvals.len()));
                    out.fail(
                        "c17:not-the-runs-generator-in-order",
                        format!(
                            "a straight-line program that performs the same sequence of random(bound) / resetRandom with the same seed draws different values: draw {j}: run {:?}, control {:?} (bound, value)",
                            mvals.get(j),
                            cvals.get(j)
                        ),
                    );
                    return out;
                }
            }
        }
        let reset_then_draw = segments.iter().skip(1).any(|s| !s.is_empty());
        out.class_if(all.len() >= 2, "draws>=2");
        out.class_if(reset_then_draw, "reset-then-draw");
        out.class_if(all.iter().any(|(b, _)| *b == 2), "bound=2");
        out.class_if(all.iter().any(|(b, _)| *b >= 1 << 32), "bound>=2^32");
        out.class_if(replayed >= 2, "replayed-prefix>=2");
        out.nontrivial = all.len() >= 2 && (reset_then_draw || !plan.value_probe.is_empty() || !plan.bits_probe.is_empty() || lazy);
        out
    }
}
