//! C17 - random(n) stays in range, draws once per evaluation, and resetRandom replays.

use crate::choice::Ch;
use crate::device::*;
use crate::engine::*;
use crate::gen::*;
use crate::props::common::*;
use crate::real::*;
use crate::ri;

pub struct C17;

pub fn random_cfg() -> Cfg {
    let mut c = Cfg::flow();
    c.max_virtual = 1;
    c.virtual_random = true;
    c.w_reset = 4;
    c.w_let = 7;
    c.max_depth = 3;
    c.allow_c = true;
    c.expr.random = true;
    c.expr.lazy_hazards = false;
    c.expr.radix = false;
    // whether a variable beats an output and which call's value is seen is C04's business
    c.vars_like_signals = false;
    c
}

/// replace every random(e) by the literal 1 (control experiment)
fn strip_random(b: &mut [crate::model::Stmt]) {
    use crate::model::*;
    fn ex(e: &mut Expr) {
        match e {
            Expr::Random(_) => *e = Expr::lit(1),
            Expr::Lit(..) | Expr::Var(_) => {}
            Expr::Un(_, a) | Expr::Group(a) => ex(a),
            Expr::Bin(_, a, b) | Expr::SignExt(a, b) => {
                ex(a);
                ex(b)
            }
            Expr::Ite(a, b, c) => {
                ex(a);
                ex(b);
                ex(c)
            }
        }
    }
    fn entries(es: &mut [Entry]) {
        for en in es {
            if let Entry::Paren(e) | Entry::Bits(_, e) = en {
                ex(e)
            }
        }
    }
    for s in b {
        match s {
            Stmt::Let(_, e) | Stmt::Declare(_, e) => ex(e),
            Stmt::Row(_, es) => entries(es),
            Stmt::Repeat(bound, _, es) => {
                ex(bound);
                entries(es)
            }
            Stmt::Loop(_, bound, inner) => {
                ex(bound);
                strip_random(inner)
            }
            Stmt::While(c, inner) => {
                ex(c);
                strip_random(inner)
            }
            Stmt::ResetRandom => {}
        }
    }
}

impl Property for C17 {
    fn id(&self) -> &'static str {
        "C17"
    }
    fn rule(&self) -> &'static str {
        "profile `random`: flow programs with random(e) in row entries, let, ite conditions and both ite branches, nested in its own argument, in a virtual signal; bounds >= 2 by construction (2, small, (e&7)+2, 2^k up to 2^62); resetRandom at any statement position; seeds {0, 1, u64::MAX, random} forced through the seed hook. Oracle: the crate's own event log (one GenDraw per draw from the run's generator, Draw{bound,value} per random evaluation, Reset) is replayed by the reference interpreter: each random evaluation must find exactly one generator draw whose bound equals the reference value of the argument and whose value satisfies 0 <= value < bound; resetRandom must find a Reset; the run must then match the reference trace row for row (as if the draws were literals); the log must be consumed exactly (none for unselected ite branches); after every Reset the values repeat those drawn from the start of the run over the longest common prefix of the bound sequences; a second run with the same seed gives the same log. Non-trivial: >= 2 draws and (a reset followed by a draw, or a random in an unselected branch, or a draw in a condition/bound); distinct by source + signals + driver + seed."
    }
    fn cases(&self, tier: Tier) -> u64 {
        match tier {
            Tier::Quick => 48000,
            Tier::Thorough => 48000 * 100,
        }
    }
    fn required_classes(&self) -> Vec<&'static str> {
        vec!["draws>=2", "reset-then-draw", "bound=2", "bound>=2^32", "random-in-virtual", "seed=0", "seed=max", "replayed-prefix>=2"]
    }
    fn run(&self, s: &Streams) -> CaseOut {
        let mut out = CaseOut::new();
        let mut built = gen_case(&mut Ch::new(&s[0]), &random_cfg());
        // operator binding is C08's business: every operand is parenthesised
        parenthesise_program(&mut built.prog.stmts);
        let mut dch = Ch::new(&s[2]);
        if feats(&built).randoms == 0 {
            // construction, not rejection: give the program a draw at the very front
            let bound = *dch.choose(&[2u64, 3, 10, 1 << 40]);
            built.prog.stmts.insert(
                0,
                crate::model::Stmt::Let("s".into(), crate::model::Expr::Random(Box::new(crate::model::Expr::lit(bound)))),
            );
            built.analysis = crate::model::analyse(&built.prog);
        }
        let text = built_text(&built);
        let spec = gen_spec(
            &mut dch,
            &built.sigs,
            &SpecCfg { palette: Palette::Small, zx: 0, free_layout: false, must_supply: built.must_supply(), both_driver_types: true },
        );
        let seed = match dch.upto(4) {
            0 => 0,
            1 => 1,
            2 => u64::MAX,
            _ => dch.u64(),
        };
        let spec = DriverSpec { constant: true, ..spec };
        render_case(&mut out, &text, &built.sigs, Some(&spec));
        out.put("seed", format!("{seed}"));
        let f = feats(&built);
        feat_classes(&mut out, &f);
        out.class_if(seed == 0, "seed=0");
        out.class_if(seed == u64::MAX, "seed=max");
        if f.randoms == 0 {
            out.discard("no-random");
            return out;
        }
        out.class_if(built.prog.virtuals().iter().any(|(_, e)| e.uses_random()), "random-in-virtual");
        let Some(tc) = load_wellformed(&mut out, "c17", &text, &built.sigs) else {
            return out;
        };
        // one call more than the reference's row cap, so that a program of exactly 300 rows is seen to end
        let opts = RunOpts { max_next: 301, seed: Some(seed), ..Default::default() };
        let real = run_real(&tc, &built.sigs, &spec, &opts);
        if real.new_runs != 1 {
            out.fail("c17:generators", format!("one run created {} generators", real.new_runs));
            return out;
        }
        let mut t = ri::run(
            &built.prog,
            &built.sigs,
            &spec,
            &ri::RiOpts { draws: Some(real.draws.clone()), row_cap: 300, ..Default::default() },
        );
        fact_classes(&mut out, &t);
        // Control experiment: the same program with every random(e) replaced by the literal 1.
        // If the crate disagrees with the reference even there, whatever differs in the real
        // run is not caused by random, and reference-dependent findings are not reported.
        let control_ok = |out: &mut CaseOut| -> bool {
            let mut p2 = built.prog.clone();
            strip_random(&mut p2.stmts);
            let text2 = crate::print::canonical(&p2).text;
            let t2 = ri::run(&p2, &built.sigs, &spec, &ri::RiOpts { row_cap: 300, ..Default::default() });
            let ok = match load(&text2, &built.sigs) {
                Ok(tc2) => {
                    let real2 = run_real(&tc2, &built.sigs, &spec, &RunOpts { max_next: 301, seed: Some(seed), ..Default::default() });
                    trace_diff(&t2, &real2, Projection::ALL).is_none()
                }
                Err(_) => false,
            };
            if !ok {
                out.class("divergence-not-caused-by-random");
            }
            ok
        };
        // what the replay found
        if let Some(ri::RiItem::Hazard { hazard, .. }) = t.items.last() {
            match hazard {
                ri::Hazard::DrawMismatch(m) => {
                    if !control_ok(&mut out) {
                        return out;
                    }
                    out.fail("c17:draw-mismatch", format!("{m}\n log: {:?}", &real.draws[..real.draws.len().min(40)]));
                    return out;
                }
                ri::Hazard::DrawLogExhausted => {
                    // the crate drew less often than the program evaluates random - unless the
                    // real run was stopped by the harness (cap on next() calls), in which case
                    // the log simply ends where the run was cut
                    if real.ended || real.items.len() < t.items.len() - 1 || real.items.len() < opts.max_next {
                        if !control_ok(&mut out) {
                            return out;
                        }
                        out.fail(
                            "c17:missing-draw",
                            format!("a random evaluation (or resetRandom) found no event in the crate's log; log: {:?}", &real.draws[..real.draws.len().min(40)]),
                        );
                        return out;
                    }
                    t.items.pop();
                    t.end = ri::RiEnd::RowCap;
                }
                _ => {
                    out.discard("other-hazard");
                    return out;
                }
            }
        }
        if let Some((k, m)) = trace_diff(&t, &real, Projection::ALL) {
            // "behaves exactly as if the drawn values had been written as literals": a row that
            // differs from the reference is this property's only if random is what makes it
            // differ. Control experiment: the same program with every random(e) replaced by
            // the literal 1. If the crate also disagrees with the reference there, the
            // divergence has nothing to do with random (some other property's business).
            if !k.starts_with("panic:") && !control_ok(&mut out) {
                return out;
            }
            let key = if k.starts_with("panic:") { k } else { format!("c17:{k}") };
            out.fail(key, format!("{m}\n(the same program with every random(e) replaced by 1 agrees with the reference)"));
            return out;
        }
        // the log must be consumed exactly when both runs went to the end
        if matches!(t.end, ri::RiEnd::Finished) && real.ended && t.draws_left != 0 {
            if !control_ok(&mut out) {
                return out;
            }
            out.fail(
                "c17:extra-draws",
                format!(
                    "{} events of the crate's random log were not accounted for by any evaluation of random / resetRandom (draws in unselected branches? more than one draw per evaluation?)",
                    t.draws_left
                ),
            );
            return out;
        }
        // resetRandom replays
        let mut replayed = 0;
        for (si, seg) in t.draw_segments.iter().enumerate().skip(1) {
            for (k, ((b0, v0), (b, v))) in t.draw_segments[0].iter().zip(seg).enumerate() {
                if b0 != b {
                    break;
                }
                if v0 != v {
                    out.fail(
                        "c17:reset-does-not-replay",
                        format!("after reset #{si}, draw {k} with bound {b} gave {v}, the run's draw {k} from the start (same bounds so far) gave {v0}"),
                    );
                    return out;
                }
                replayed = replayed.max(k + 1);
            }
        }
        // same seed, same log
        let again = run_real(&tc, &built.sigs, &spec, &opts);
        if again.draws != real.draws {
            out.fail("c17:same-seed-different-draws", "two runs with the same seed and script produced different random logs");
            return out;
        }
        let all: Vec<&(i64, i64)> = t.draw_segments.iter().flatten().collect();
        out.class_if(all.len() >= 2, "draws>=2");
        out.class_if(t.facts.reset_then_draw, "reset-then-draw");
        out.class_if(all.iter().any(|(b, _)| *b == 2), "bound=2");
        out.class_if(all.iter().any(|(b, _)| *b >= 1 << 32), "bound>=2^32");
        out.class_if(replayed >= 2, "replayed-prefix>=2");
        out.nontrivial = all.len() >= 2 && (t.facts.reset_then_draw || f.randoms as usize > all.len() || f.computed_bound || f.whiles > 0);
        out
    }
}
