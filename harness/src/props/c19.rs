//! C19 - each row reports the source line it came from.

use std::collections::BTreeSet;

use crate::choice::Ch;
use crate::device::*;
use crate::engine::*;
use crate::gen::*;
use crate::model::*;
use crate::print::*;
use crate::props::common::*;
use crate::real::*;

pub struct C19;

pub fn lines_cfg() -> Cfg {
    let mut c = Cfg::flow();
    c.allow_c = true;
    c.allow_input_x = true;
    c.max_x = 2;
    c.max_depth = 4;
    c.w_repeat = 4;
    c.device_whiles = false;
    // `declare` lines too (a row may stand on the line right after one)
    c.max_virtual = 2;
    c
}

/// add a dedicated 32-bit input column TAG holding the row id of every row statement
pub fn add_tags(b: &mut Built) {
    b.sigs.insert(0, Sig { name: "TAG".into(), bits: 32, kind: Kind::In(InVal::Val(0)) });
    b.prog.header.insert(0, "TAG".into());
    fn go(bl: &mut [Stmt]) {
        for s in bl {
            match s {
                Stmt::Row(id, es) | Stmt::Repeat(_, id, es) => es.insert(0, Entry::Num(*id as u64 + 1, Radix::Dec)),
                Stmt::Loop(_, _, inner) | Stmt::While(_, inner) => go(inner),
                _ => {}
            }
        }
    }
    go(&mut b.prog.stmts);
    b.cols = col_roles(&b.prog.header, &b.sigs);
    b.analysis = analyse(&b.prog);
}

/// Make one pair of adjacent plain row statements identical, tag included ("twins"): nothing
/// but their line tells them apart. Returns (tag, id of the first, id of the second, items per
/// evaluation).
fn make_twins(b: &mut Built, ch: &mut Ch) -> Option<(i64, usize, usize, usize)> {
    fn sites(bl: &[Stmt], path: &mut Vec<usize>, out: &mut Vec<Vec<usize>>) {
        for (i, s) in bl.iter().enumerate() {
            if let (Stmt::Row(..), Some(Stmt::Row(..))) = (s, bl.get(i + 1)) {
                let mut p = path.clone();
                p.push(i);
                out.push(p);
            }
            if let Stmt::Loop(_, _, inner) | Stmt::While(_, inner) = s {
                path.push(i);
                sites(inner, path, out);
                path.pop();
            }
        }
    }
    let mut all = vec![];
    sites(&b.prog.stmts, &mut vec![], &mut all);
    if all.is_empty() {
        return None;
    }
    let path = all[ch.upto(all.len())].clone();
    let mut bl: &mut Vec<Stmt> = &mut b.prog.stmts;
    for i in &path[..path.len() - 1] {
        bl = match &mut bl[*i] {
            Stmt::Loop(_, _, inner) | Stmt::While(_, inner) => inner,
            _ => return None,
        };
    }
    let i = *path.last().unwrap();
    let (id1, es) = match &bl[i] {
        Stmt::Row(id, es) => (*id, es.clone()),
        _ => return None,
    };
    let id2 = match &mut bl[i + 1] {
        Stmt::Row(id, es2) => {
            *es2 = es.clone();
            *id
        }
        _ => return None,
    };
    // items per evaluation: 2^(X in input-bound columns) x (3 if C)
    let mut col = 0usize;
    let mut nx = 0u32;
    let mut c = false;
    for e in &es {
        match e {
            Entry::X(_) if b.cols.get(col).map(|c| c.role != ColRole::ExpectedOnly).unwrap_or(false) => nx += 1,
            Entry::C(_) => c = true,
            _ => {}
        }
        col += e.width();
    }
    b.analysis = analyse(&b.prog);
    Some((id1 as i64 + 1, id1, id2, (1usize << nx) * if c { 3 } else { 1 }))
}

impl Property for C19 {
    fn id(&self) -> &'static str {
        "C19"
    }
    fn rule(&self) -> &'static str {
        "profile `lines`: flow programs (with C/X rows and repeat, depth 0-4) printed with 0-4 blank lines before the header (one case in six embedded in a .dig document and loaded with load_test), blank and comment-only lines anywhere after it, trailing comments, LF or CRLF throughout or chosen line by line, varied blank space, last row with or without newline; in a quarter of the cases the driver fails on one call and the caller goes on; every row statement carries a unique literal tag in a dedicated 32-bit input column - except that in a third of the cases two adjacent rows are made identical, tag included (blocks of g items then alternate between their two lines). Oracle (no control-flow semantics): for every yielded row, dynamic and static, row.line == the line the printer recorded for the tag read back from the row's own input vector; every top-level row's tag must be seen. Non-trivial: some row at depth >= 1, or lines inserted above a row, or CRLF, or leading blank lines; distinct by text."
    }
    fn cases(&self, tier: Tier) -> u64 {
        match tier {
            Tier::Quick => 48000,
            Tier::Thorough => 48000 * 100,
        }
    }
    fn required_classes(&self) -> Vec<&'static str> {
        vec!["crlf", "mixed-line-ends", "lead-blank", "comment-lines", "no-final-newline", "row-in-loop", "static-run", "repeat", "C-row", "X-row", "last-line-is-row-without-newline", "row-after-driver-failure", "second-of-identical-rows-checked", "loaded-from-a-dig-document", "rows-beyond-line-65535", "declare"]
    }
    fn run(&self, s: &Streams) -> CaseOut {
        let mut out = CaseOut::new();
        let cfg = lines_cfg();
        let mut built = gen_case(&mut Ch::new(&s[0]), &cfg);
        add_tags(&mut built);
        // in a third of the cases two adjacent rows are made identical, tag and all: every
        // execution of that block yields the items of the first, then those of the second, and
        // only `line` tells them apart
        let mut tch = Ch::new(&s[2]);
        let _ = (tch.u64(), tch.u64(), tch.u64());
        let twins = if tch.chance(1, 3) { make_twins(&mut built, &mut tch) } else { None };
        out.class_if(twins.is_some(), "identical-adjacent-rows");
        let lines = program_lines(&built.prog);
        // one case in six (if no signal is bidirectional) goes through a .dig document: the
        // lines are still counted from the start of the test's own source text
        // (the .dig loader takes every header name for a pin: no virtual signals there)
        let via_dig = tch.chance(1, 6) && !built.sigs.iter().any(|s| matches!(s.kind, Kind::Bidir(_))) && built.analysis.virtuals.is_empty();
        let r = render(&lines, &mut Ch::new(&s[1]), LayoutOpts::ALL);
        let mut dch = Ch::new(&s[2]);
        let mut spec = gen_spec(
            &mut dch,
            &built.sigs,
            &SpecCfg { palette: Palette::Small, zx: 0, free_layout: false, must_supply: built.must_supply(), both_driver_types: true },
        );
        // in a quarter of the cases the driver fails on one call; the caller goes on, and the rows
        // that follow still report their own lines
        if dch.chance(1, 4) {
            spec.fail_at = Some(1 + dch.upto(12));
        }
        // one text in four hundred has 66 000 more blank lines in front of everything (the header
        // may be preceded by any number of them): rows then sit on lines beyond 65 535
        let mut r = r;
        if tch.chance(1, 400) {
            const N: usize = 66_000;
            r.text = format!("{}{}", "\n".repeat(N), r.text);
            for l in r.row_line.iter_mut() {
                *l += N;
            }
            out.class("rows-beyond-line-65535");
        }
        render_case(&mut out, &r.text, &built.sigs, Some(&spec));
        let f = feats(&built);
        feat_classes(&mut out, &f);
        out.class_if(r.stats.crlf, "crlf");
        out.class_if(r.stats.mixed_eol, "mixed-line-ends");
        out.class_if(r.stats.lead_blank > 0, "lead-blank");
        out.class_if(r.stats.comment_lines > 0, "comment-lines");
        out.class_if(!r.stats.final_newline, "no-final-newline");
        out.class_if(
            !r.stats.final_newline && matches!(lines.last().map(|l| &l.kind), Some(LineKind::Row | LineKind::Repeat)),
            "last-line-is-row-without-newline",
        );
        out.class_if(f.depth >= 1 && f.rows > 0, "row-in-loop");

        let tc = if via_dig {
            match load_via_dig(&r.text, &built.sigs) {
                Ok(Some(tc)) => {
                    out.class("loaded-from-a-dig-document");
                    tc
                }
                // loading .dig documents is C16's business
                _ => {
                    out.discard("dig-document-did-not-load");
                    return out;
                }
            }
        } else {
            let Some(tc) = load_wellformed(&mut out, "c19", &r.text, &built.sigs) else {
                return out;
            };
            tc
        };
        let real = run_real(&tc, &built.sigs, &spec, &RunOpts { max_next: 600, continue_after_driver_error: true, ..Default::default() });
        if let Some(RealItem::Panic(p)) = &real.ctor {
            out.fail(p.key(), format!("constructor panicked: {p}"));
            return out;
        }
        let mut seen = BTreeSet::new();
        let mut complete = real.ended;
        let mut after_failure = false;
        let mut twin_items = 0usize;
        let check = |tag: Option<InVal>, line: usize, what: &str, out: &mut CaseOut, seen: &mut BTreeSet<usize>| -> bool {
            let Some(InVal::Val(t)) = tag else {
                out.fail("c19:no-tag", format!("{what}: row without TAG input"));
                return false;
            };
            let id = t as usize - 1;
            let Some(want) = r.row_line.get(id) else {
                out.fail("c19:bad-tag", format!("{what}: tag {t} names no row"));
                return false;
            };
            seen.insert(id);
            if line != *want {
                out.fail("c19:wrong-line", format!("{what}: row with tag {t} reports line {line}, its source row is on line {want}"));
                return false;
            }
            true
        };
        for (i, item) in real.items.iter().enumerate() {
            match item {
                RealItem::Row(row) => {
                    out.class_if(after_failure, "row-after-driver-failure");
                    let tag = row.inputs.iter().find(|e| e.0 == "TAG").map(|e| e.1);
                    if let (Some((t, id1, id2, g)), Some(InVal::Val(tv))) = (twins, tag) {
                        if tv == t {
                            // k-th item with this tag: blocks of g items alternate first / second
                            // (only relied on while no item has been lost to a driver failure)
                            if spec.fail_at.is_none() {
                                let id = if (twin_items / g) % 2 == 0 { id1 } else { id2 };
                                twin_items += 1;
                                seen.insert(id);
                                out.class_if(id == id2, "second-of-identical-rows-checked");
                                if row.line != r.row_line[id] {
                                    out.fail(
                                        "c19:wrong-line",
                                        format!("dynamic item {i}: item {} of the two identical adjacent rows on lines {} and {} ({g} items per evaluation) reports line {}, must be {}", twin_items - 1, r.row_line[id1], r.row_line[id2], row.line, r.row_line[id]),
                                    );
                                    return out;
                                }
                            } else {
                                seen.insert(id1);
                                seen.insert(id2);
                            }
                            continue;
                        }
                    }
                    if !check(tag, row.line, &format!("dynamic item {i}"), &mut out, &mut seen) {
                        return out;
                    }
                }
                RealItem::Panic(p) => {
                    out.fail(p.key(), format!("item {i} panicked: {p}"));
                    return out;
                }
                RealItem::DriverErr(_) => {
                    complete = false;
                    after_failure = true;
                }
                _ => {
                    complete = false;
                    break;
                }
            }
        }
        if built.analysis.is_static() {
            out.class("static-run");
            match run_static(&tc, 600, Some(0)) {
                StaticRun::Items { items, .. } => {
                    for (i, it) in items.iter().enumerate() {
                        match it {
                            StaticItem::Row(row) => {
                                let tag = row.inputs.iter().find(|e| e.0 == "TAG").map(|e| e.1);
                                if matches!((twins, tag), (Some((t, ..)), Some(InVal::Val(tv))) if tv == t) {
                                    continue;
                                }
                                if !check(tag, row.line, &format!("static item {i}"), &mut out, &mut seen) {
                                    return out;
                                }
                            }
                            StaticItem::Panic(p) => {
                                out.fail(p.key(), format!("static item {i} panicked: {p}"));
                                return out;
                            }
                            StaticItem::Err(_) => break,
                        }
                    }
                }
                StaticRun::CtorPanic(p) => {
                    out.fail(p.key(), format!("try_iter_static panicked: {p}"));
                    return out;
                }
                StaticRun::NotStatic(_) => {}
            }
        }
        if complete {
            for s in &built.prog.stmts {
                if let Stmt::Row(id, _) = s {
                    if !seen.contains(id) {
                        out.fail("c19:top-level-row-not-seen", format!("top-level row #{id} (line {}) never appeared in a complete run", r.row_line[*id]));
                        return out;
                    }
                }
            }
        }
        let inserted = r.inserted_above.iter().any(|n| *n > 0);
        out.nontrivial = !seen.is_empty() && ((f.depth >= 1) || inserted || r.stats.crlf || r.stats.lead_blank > 0);
        out
    }
}
