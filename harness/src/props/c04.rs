//! C04 - expressions that read outputs see the most recently read device values.
//!
//! As built (DESIGN 8.4b): self-consistent oracle. Every row statement carries a tag and three
//! 64-bit probe inputs `(Q)` that read device outputs (names that cannot be variables at that
//! row) or variables that shadow an output of the same name. What the probe must show is
//! decided from the recording driver's own log: the value the driver returned for Q in the
//! latest output-reading call made for a *checked* item (or by the constructor) before the
//! row was evaluated. No reference interpreter is involved.

use crate::choice::Ch;
use crate::device::*;
use crate::engine::*;
use crate::gen::*;
use crate::model::*;
use crate::probe::*;
use crate::props::common::*;
use crate::real::*;

pub struct C04;

fn feedback_cfg() -> Cfg {
    let mut c = Cfg::flow();
    c.n_out = (1, 3);
    c.n_bidir = (0, 1);
    c.allow_c = true;
    // X rows too: one evaluation then yields 2^k (x 3 with C) items, every checked one with a
    // fresh answer
    c.allow_input_x = true;
    c.max_x = 2;
    // a virtual signal can turn a row into an error item; the caller goes on, and what later
    // expressions see must not be affected
    c.max_virtual = 1;
    c.w_row = 12;
    c.w_let = 7;
    c.max_depth = 3;
    c.expr.max_depth = 2;
    // device values are 100..=105 here (so that a probe showing the device value is unlikely to
    // be a variable's value by coincidence): never a loop bound as they are
    c.small_device = false;
    c
}

const NPROBES: usize = 3;

impl Property for C04 {
    fn id(&self) -> &'static str {
        "C04"
    }
    fn rule(&self) -> &'static str {
        "profile `feedback`: programs that read outputs in row entries, let, loop bounds, while and ite conditions, with C rows (both driver types, so forwarded mid-clock calls of the defaulting driver must stay invisible) and X rows, 0-1 virtual signals; variables and counters named like outputs; device answers differ on every call; with probability 1/4 Z/X answers, with probability 1/4 a malformed answer to one call (an entry repeated or two swapped; that row is an error item and the caller goes on), with probability about 1/5 a driver failure on one call (the caller goes on; the failed item keeps its place in its expansion and nothing was read by it), with probability 1/8 a layout that omits a read signal. Every row statement carries a tag and three 64-bit probe inputs `(Q)` reading a device output that cannot be a variable at that row, or a variable that shadows an output. Oracle (self-consistent, from the recording driver's own log): the probe value of every item equals the value the driver returned for Q in the latest call made for a checked item (or by the constructor) before the source row was evaluated; a Z/X answer there means the row must be an error item, not a row; a shadowing variable's probe equals vars(); an omitted read signal => constructor error after exactly one call and no row. Non-trivial: a device probe was checked after >= 2 output-reading calls that returned different values for it, or after a mid-clock write, or a constructor refusal / Z-X error was due; distinct by source + signals + driver."
    }
    fn cases(&self, tier: Tier) -> u64 {
        match tier {
            Tier::Quick => 48000,
            Tier::Thorough => 48000 * 100,
        }
    }
    fn required_classes(&self) -> Vec<&'static str> {
        vec![
            "fresh-read",
            "ctor-refusal-due",
            "zx-read-error-seen",
            "defaulting-driver",
            "overriding-driver",
            "probe-before-first-row",
            "shadowing-variable-probed",
            "row-after-virtual-error",
            "row-after-driver-failure",
            "probe-in-loop",
        ]
    }
    fn run(&self, s: &Streams) -> CaseOut {
        let mut out = CaseOut::new();
        let cfg = feedback_cfg();
        let mut built = gen_case(&mut Ch::new(&s[0]), &cfg);
        let readable: Vec<String> =
            built.sigs.iter().filter(|s| s.is_output() && is_ident(&s.name)).map(|s| s.name.clone()).collect();
        let rows = instrument(&mut built, &mut Ch::new(&s[1]), NPROBES, ProbePref::Device, &readable);
        let mut dch = Ch::new(&s[2]);
        // One case in five ends with: `loop(pl, 1)` / `let pw = 1;` / `while(pw)` / `let Q = 77;` / `let pw = 0;` /
        // `end while` / a row of literals whose first probe is `(Q)` / `end loop`, Q being an output. `while` opens no
        // scope: behind `end while` the variable Q is still there and takes precedence over the device's Q (100..105).
        // (The row carries tag 0; it is the last statement, so everything before it is judged as usual.)
        let planted_q: Option<String> = if !readable.is_empty() && Ch::new(&s[1]).chance(1, 5) {
            let q = readable[dch.upto(readable.len())].clone();
            let es: Vec<Entry> = built
                .cols
                .iter()
                .map(|c| if c.name == "PR0" { Entry::Paren(Expr::var(&q)) } else if c.role == ColRole::ExpectedOnly { Entry::X(true) } else { Entry::Num(0, Radix::Dec) })
                .collect();
            let id = built.prog.row_count();
            built.prog.stmts.push(Stmt::Loop(
                "pl".into(),
                Expr::lit(1),
                vec![
                    Stmt::Let("pw".into(), Expr::lit(1)),
                    Stmt::While(Expr::var("pw"), vec![Stmt::Let(q.clone(), Expr::lit(77)), Stmt::Let("pw".into(), Expr::lit(0))]),
                    Stmt::Row(id, es),
                ],
            ));
            built.analysis = analyse(&built.prog);
            Some(q)
        } else {
            None
        };
        // One of the other cases in four ends with a row of literals whose first probe is `(0 & (Q))`, Q being an output:
        // both operands of `&` are evaluated whatever the left one is, so if the latest value read for Q is Z or X the row
        // is an error item like any row that reads Q (tag 0, last statement).
        let planted_abs: Option<String> = if planted_q.is_none() && !readable.is_empty() && dch.chance(1, 4) {
            let q = readable[dch.upto(readable.len())].clone();
            let probe = Expr::Group(Box::new(Expr::bin(BinOp::And, Expr::lit(0), Expr::Group(Box::new(Expr::var(&q))))));
            let es: Vec<Entry> = built
                .cols
                .iter()
                .map(|c| if c.name == "PR0" { Entry::Paren(probe.clone()) } else if c.role == ColRole::ExpectedOnly { Entry::X(true) } else { Entry::Num(0, Radix::Dec) })
                .collect();
            let id = built.prog.row_count();
            built.prog.stmts.push(Stmt::Row(id, es));
            built.analysis = analyse(&built.prog);
            if built.analysis.reads.contains(&q) { Some(q) } else { None }
        } else {
            None
        };
        let text = built_text(&built);
        let must = built.must_supply();
        let mut spec = gen_spec(
            &mut dch,
            &built.sigs,
            &SpecCfg { palette: Palette::Hundred, zx: 0, free_layout: true, must_supply: must.clone(), both_driver_types: true },
        );
        if dch.chance(1, 4) {
            spec.zx = 24;
        }
        // in a quarter of the cases the driver's answer to one call is malformed (an entry
        // repeated, or two entries swapped - every output is still reported): that row is an
        // error item, the caller goes on, and what later expressions see is decided as before
        if dch.chance(1, 4) {
            let p = dch.upto(8);
            spec.deviate_at = Some((1 + dch.upto(10), if dch.chance(1, 2) { Deviation::Duplicate(p) } else { Deviation::Swap(p, p + 1 + dch.upto(3)) }));
        }
        // in a fifth of the cases the driver fails on one call; the caller goes on, and the
        // latest values read stay those of the latest call that succeeded
        if spec.deviate_at.is_none() && dch.chance(1, 4) {
            spec.fail_at = Some(1 + dch.upto(16));
        }
        let mut omitted = None;
        let spec_complete = spec.clone();
        if !must.is_empty() && dch.chance(1, 8) {
            let victim = must[dch.upto(must.len())];
            spec.layout.retain(|i| *i != victim);
            omitted = Some(built.sigs[victim].name.clone());
        }
        // in half of the cases the pure outputs are declared 1-6 bits wide: the device's values (100..=105) do not fit,
        // and an expression still reads exactly the value the driver returned
        if dch.chance(1, 2) {
            out.class("outputs-narrower-than-the-device-values");
            for sg in built.sigs.iter_mut() {
                if matches!(sg.kind, Kind::Out) && dch.chance(2, 3) {
                    sg.bits = *dch.choose(&[1usize, 2, 3, 4, 6]);
                }
            }
        }
        render_case(&mut out, &text, &built.sigs, Some(&spec));
        let f = feats(&built);
        feat_classes(&mut out, &f);
        out.class(if spec.override_write { "overriding-driver" } else { "defaulting-driver" });
        let Some(tc) = load_wellformed(&mut out, "c04", &text, &built.sigs) else {
            return out;
        };
        // (in half of the refusal cases another iterator over the same TestCase ran before, with a driver that supplies
        // everything: constructing the second one must fail all the same)
        if omitted.is_some() && dch.chance(1, 2) {
            out.class("complete-driver-ran-before-the-omitting-one");
            let mut pre = spec_complete.clone();
            pre.fail_at = None;
            pre.deviate_at = None;
            let _ = run_real(&tc, &built.sigs, &pre, &RunOpts { max_next: 1 + dch.upto(3), ..Default::default() });
        }
        let real = run_real(
            &tc,
            &built.sigs,
            &spec,
            &RunOpts { max_next: 300, want_vars: true, continue_after_error: true, continue_after_driver_error: true, ..Default::default() },
        );
        // the program reads an output the driver does not supply: construction must fail
        if let Some(name) = &omitted {
            out.class("ctor-refusal-due");
            out.nontrivial = true;
            match &real.ctor {
                Some(RealItem::RuntimeErr(_)) => {
                    if real.log.len() != 1 {
                        out.fail("c04:ctor-refusal-calls", format!("constructor refused after {} driver calls, should be exactly 1", real.log.len()));
                    }
                }
                Some(RealItem::Panic(p)) => out.fail(p.key(), format!("constructor panicked: {p}")),
                other => out.fail(
                    "c04:missing-read-output-accepted",
                    format!(
                        "the program reads {name:?}, which the driver does not supply; constructing the iterator must fail, got {:?}",
                        other.as_ref().map(|o| o.short())
                    ),
                ),
            }
            return out;
        }
        if let Some(c) = &real.ctor {
            match c {
                RealItem::Panic(p) => out.fail(p.key(), format!("constructor panicked: {p}")),
                // every read output is supplied: nothing to refuse
                o => out.fail("c04:ctor-refused", format!("every output the program reads is supplied, yet the constructor failed: {}", o.short())),
            }
            return out;
        }
        // this oracle relies on "one driver call per item" (C02) to know which call belongs
        // to which item
        let n = real.items.len();
        let calls_ok = (0..n).all(|i| {
            let d = real.log_len_before[i + 1] - real.log_len_before[i];
            match &real.items[i] {
                RealItem::Row(_) | RealItem::DriverErr(_) => d == 1,
                _ => d <= 1,
            }
        });
        if !calls_ok {
            out.discard("call-protocol-broken");
            return out;
        }
        let sig_index = |name: &str| built.sigs.iter().position(|s| s.name == name);
        // answer of the latest call made for a checked item (or the constructor)
        let mut latest: Vec<(usize, OutVal)> = real.log[0].answer.clone();
        let mut latest_call = 0usize;
        let mut distinct_answers_seen: std::collections::BTreeMap<String, std::collections::BTreeSet<String>> = Default::default();
        let mut checked_calls = 1usize;
        let mut midclock_since = false;
        let mut seen_virtual_error = false;
        let mut seen_driver_failure = false;
        let mut nontrivial = false;
        // position within the current run of same-tag items
        let mut run_tag: Option<i64> = None;
        let mut run_pos = 0usize;
        let mut desync = false;
        let mut desync_tag: Option<i64> = None;
        // what the probes of the current evaluation must show (fixed at the first item of a group)
        let mut group_latest: Vec<(usize, OutVal)> = latest.clone();
        let mut group_call = 0usize;
        for (i, item) in real.items.iter().enumerate() {
            let made_call = real.log_len_before[i + 1] > real.log_len_before[i];
            let call = if made_call { Some(&real.log[real.log_len_before[i]]) } else { None };
            let mut answered_error = false;
            match item {
                RealItem::Panic(p) => {
                    out.fail(p.key(), format!("item {i} panicked: {p}"));
                    return out;
                }
                RealItem::DriverErr(_) if !matches!(call, Some(c) if c.failed) => break,
                // (a driver failure on a row's call is handled below: the item keeps its place
                // in the expansion, nothing was read)
                RealItem::DriverErr(_) => {}
                RealItem::RuntimeErr(_) => {
                    if made_call {
                        // an error item with its driver call: a virtual signal read Z/X in this
                        // call; the row is consumed, the device values of that call are the
                        // latest ones read
                        // (or a malformed answer). The item keeps its place in its expansion -
                        // which one is known from the vector the driver received - see below.
                        seen_virtual_error = true;
                        answered_error = true;
                    } else {
                    // an expression could not be evaluated. Expressions are total in this
                    // profile, so the reason can only be a read of an output whose latest value
                    // is Z or X: if the latest answer holds numbers only, a read of a numeric
                    // output has failed. Either way the program state afterwards is not
                    // specified; stop here
                    // (a name bound only in a while body that did not run is the other possible
                    // reason - C10's "variable never assigned": programs with a `let` inside a
                    // `while` are not judged here)
                    if !latest.is_empty() && latest.iter().all(|(_, v)| matches!(v, OutVal::Val(_))) && spec.deviate_at.is_none() && crate::model::names_let_in_while(&built.prog).is_empty() {
                        out.fail(
                            "c04:read-of-a-numeric-output-failed",
                            format!("item {i} is an error item for which no driver call was made (an expression could not be evaluated), but every output in the latest output-reading call (driver call #{latest_call}) has a numeric value: {latest:?}"),
                        );
                        return out;
                    }
                    out.class("zx-read-error-seen");
                    nontrivial = true;
                    break;
                    }
                }
                RealItem::Row(_) => {}
            }
            // a row, or the item whose call the driver failed (known by the vector it received)
            let failed_row;
            let (row, is_failed): (&RealRow, bool) = match item {
                RealItem::Row(row) => (row, false),
                _ => {
                    let Some(c) = call else { break };
                    failed_row = RealRow { inputs: c.inputs.clone(), outputs: vec![], failing: vec![], line: 0 };
                    out.class_if(!answered_error, "driver-failure-item");
                    (&failed_row, true)
                }
            };
            {
                {
                    let Some(InVal::Val(tag)) = row.inputs.iter().find(|e| e.0 == "TAG").map(|e| e.1) else { break };
                    if let (0, Some(q), false) = (tag, &planted_q, is_failed) {
                        out.class("variable-bound-in-a-while-body-probed-behind-it");
                        let shown = row.inputs.iter().find(|e| e.0 == "PR0").map(|e| e.1);
                        if shown != Some(InVal::Val(77)) {
                            out.fail(
                                "c04:variable-does-not-take-precedence",
                                format!("the program ends with `loop(pl, 1) let pw = 1; while(pw) let {q} = 77; let pw = 0; end while / a row whose first probe is ({q}) / end loop`: `while` opens no scope, the variable {q} is in scope behind `end while` and takes precedence over the output of that name; the probe shows {shown:?}"),
                            );
                            return out;
                        }
                        break;
                    }
                    if let (0, Some(q), false) = (tag, &planted_abs, is_failed) {
                        // (a row came back: the latest value read for q must have been a number - unless q is a variable for
                        // the crate at this point)
                        let is_var = matches!(real.vars.get(i), Some(Some(vs)) if vs.contains_key(q));
                        let lv = sig_index(q).and_then(|si| latest.iter().find(|(s2, _)| *s2 == si).map(|(_, v)| *v));
                        out.class("absorbed-read-probed");
                        if let (false, Some(zx @ (OutVal::Z | OutVal::X))) = (is_var, lv) {
                            out.class("absorbed-read-of-zx");
                            out.fail(
                                "c04:zx-read-yields-a-row",
                                format!("the program ends with a row whose first probe is `(0 & ({q}))`; the latest output-reading call (driver call #{latest_call}) returned {q} = {zx}: both operands of `&` are evaluated, the row reads {q} and must be an error item, got a row"),
                            );
                            return out;
                        }
                        break;
                    }
                    let Some(info) = rows.get(&((tag - 1) as usize)) else { break };
                    if desync {
                        match desync_tag {
                            None => desync_tag = Some(tag),
                            Some(t) if t == tag => {}
                            Some(_) => {
                                desync = false;
                                run_tag = None;
                            }
                        }
                    }
                    // is this item the first of a new evaluation of its source row?
                    if run_tag == Some(tag) {
                        run_pos += 1;
                    } else {
                        run_tag = Some(tag);
                        run_pos = 0;
                    }
                    if run_pos % info.group.max(1) == 0 {
                        group_latest = latest.clone();
                        group_call = latest_call;
                        out.class_if(midclock_since, "probe-after-mid-clock-write");
                        if midclock_since {
                            nontrivial = true;
                        }
                    }
                    out.class_if(seen_virtual_error, "row-after-virtual-error");
                    out.class_if(i == 0, "probe-before-first-row");
                    out.class_if(seen_driver_failure && !is_failed, "row-after-driver-failure");
                    if is_failed {
                        if answered_error {
                            // the device values of that call are the latest ones read
                            if let Some(c) = call {
                                if c.read {
                                    latest = c.answer.clone();
                                    latest_call = real.log_len_before[i];
                                    checked_calls += 1;
                                    midclock_since = false;
                                }
                            }
                        } else {
                            seen_driver_failure = true;
                        }
                        continue;
                    }
                    for (k, p) in info.probes.iter().enumerate() {
                        let Some(name) = p else { continue };
                        let Some(InVal::Val(shown)) = row.inputs.iter().find(|e| e.0 == format!("PR{k}")).map(|e| e.1) else { continue };
                        if info.definite.contains(name) {
                            // a variable of that name is in scope: it takes precedence
                            out.class("shadowing-variable-probed");
                            // Reported only if the device value is what was read instead: if the
                            // probe shows neither the variable (per vars()) nor the device value,
                            // vars() itself may be what is wrong (C18's business).
                            let device_now = sig_index(name).and_then(|si| group_latest.iter().find(|(s, _)| *s == si).map(|(_, v)| *v));
                            if let Some(Some(vars)) = real.vars.get(i) {
                                if vars.get(name) != Some(&shown) && device_now == Some(OutVal::Val(shown)) {
                                    out.fail(
                                        "c04:variable-does-not-take-precedence",
                                        format!(
                                            "item {i} (source row #{}): ({name}) evaluated to {shown} although the variable {name} = {:?} is in scope (device value {:?})",
                                            tag - 1,
                                            vars.get(name),
                                            sig_index(name).and_then(|si| group_latest.iter().find(|(s, _)| *s == si).map(|(_, v)| *v))
                                        ),
                                    );
                                    return out;
                                }
                            }
                            continue;
                        }
                        if desync {
                            continue;
                        }
                        let Some(si) = sig_index(name) else { continue };
                        let want = group_latest.iter().find(|(s, _)| *s == si).map(|(_, v)| *v);
                        out.class_if(info.depth > 0, "probe-in-loop");
                        match want {
                            Some(OutVal::Val(v)) => {
                                let seen = distinct_answers_seen.entry(name.clone()).or_default();
                                if checked_calls >= 2 && seen.len() >= 2 {
                                    out.class("fresh-read");
                                    nontrivial = true;
                                }
                                // if the crate itself says that a variable of this name is in
                                // scope here although none can be, by the scope rule (the variable
                                // of a loop that has ended, say), what was read is that variable:
                                // only a variable IN SCOPE takes precedence over the output
                                let crate_sees_variable = matches!(real.vars.get(i), Some(Some(vs)) if vs.get(name) == Some(&shown));
                                if shown != v && crate_sees_variable {
                                    out.fail(
                                        "c04:out-of-scope-variable-takes-precedence",
                                        format!(
                                            "item {i} (source row #{}): ({name}) evaluated to {shown}, the value of a variable {name} that is not in scope at that row (vars() still lists it); the device returned {name} = {v} in the latest output-reading call (driver call #{group_call})",
                                            tag - 1
                                        ),
                                    );
                                    return out;
                                } else if shown != v {
                                    out.fail(
                                        "c04:stale-or-wrong-device-value",
                                        format!(
                                            "item {i} (source row #{}): ({name}) evaluated to {shown}; the latest output-reading call made for a checked row before this row was evaluated (driver call #{group_call}) returned {name} = {v}",
                                            tag - 1
                                        ),
                                    );
                                    return out;
                                }
                            }
                            Some(_) if matches!(real.vars.get(i), Some(Some(vs)) if vs.contains_key(name)) => {
                                // the crate read a variable of this name (see above)
                                out.class("name-is-a-variable-for-the-crate");
                            }
                            Some(zx) => {
                                out.fail(
                                    "c04:zx-read-yields-a-row",
                                    format!(
                                        "item {i} (source row #{}): the row reads {name}, for which the latest output-reading call (driver call #{group_call}) returned {zx}; the row must be an error item, got a row with ({name}) = {shown}",
                                        tag - 1
                                    ),
                                );
                                return out;
                            }
                            None => {}
                        }
                    }
                    // this item's own call
                    if let Some(c) = call {
                        if !row.outputs.is_empty() {
                            latest = c.answer.clone();
                            latest_call = real.log_len_before[i];
                            checked_calls += 1;
                            midclock_since = false;
                            for (si, v) in &c.answer {
                                distinct_answers_seen.entry(built.sigs[*si].name.clone()).or_default().insert(format!("{v}"));
                            }
                        } else {
                            midclock_since = true;
                        }
                    }
                }
            }
        }
        out.nontrivial = nontrivial;
        out
    }
}
