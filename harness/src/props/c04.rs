//! C04 - expressions that read outputs see the most recently read device values.

use crate::choice::Ch;
use crate::device::*;
use crate::engine::*;
use crate::gen::*;
use crate::props::common::*;
use crate::real::*;
use crate::ri;

pub struct C04;

fn feedback_cfg() -> Cfg {
    let mut c = Cfg::flow();
    c.n_out = (1, 3);
    c.n_bidir = (0, 1);
    c.allow_c = true;
    // a virtual signal can turn a row into an error item; the caller goes on, and what later
    // expressions see must not be affected
    c.max_virtual = 1;
    c.w_row = 12;
    c.w_let = 7;
    c.max_depth = 3;
    c.expr.max_depth = 2;
    c
}

impl Property for C04 {
    fn id(&self) -> &'static str {
        "C04"
    }
    fn rule(&self) -> &'static str {
        "profile `feedback`: programs that read outputs in row entries, let, loop bounds, while and ite conditions, before the first row and after mid-clock rows (C rows with both driver types, so forwarded mid-clock calls of the defaulting driver must stay invisible); variables and counters named like outputs; device answers differ on every output-reading call; with probability 1/4 Z/X answers, with probability 1/8 a layout that omits a read signal. Oracle: reference interpreter with the same script: identical input vectors and expected values, row count and end; omitted read signal => constructor error after exactly one call; Z/X read => that next() is a runtime error item. Non-trivial: an output is read in an expression after >= 2 output-reading calls that returned different values for it (or a constructor refusal / ZX error is due); distinct by source + signals + driver."
    }
    fn cases(&self, tier: Tier) -> u64 {
        match tier {
            Tier::Quick => 48000,
            Tier::Thorough => 48000 * 100,
        }
    }
    fn required_classes(&self) -> Vec<&'static str> {
        vec!["fresh-read", "ctor-refusal-due", "zx-error-due", "clock-triple", "defaulting-driver", "overriding-driver", "read-before-first-row", "shadowing", "row-after-virtual-error"]
    }
    fn run(&self, s: &Streams) -> CaseOut {
        let mut out = CaseOut::new();
        let cfg = feedback_cfg();
        let built = gen_case(&mut Ch::new(&s[0]), &cfg);
        let text = built_text(&built);
        let mut dch = Ch::new(&s[2]);
        let must = built.must_supply();
        let mut spec = gen_spec(
            &mut dch,
            &built.sigs,
            &SpecCfg { palette: Palette::Small, zx: 0, free_layout: true, must_supply: must.clone(), both_driver_types: true },
        );
        if dch.chance(1, 4) {
            spec.zx = 24;
        }
        if !must.is_empty() && dch.chance(1, 8) {
            let victim = must[dch.upto(must.len())];
            spec.layout.retain(|i| *i != victim);
        }
        render_case(&mut out, &text, &built.sigs, Some(&spec));
        let f = feats(&built);
        feat_classes(&mut out, &f);
        out.class(if spec.override_write { "overriding-driver" } else { "defaulting-driver" });
        let t = ri::run(&built.prog, &built.sigs, &spec, &ri::RiOpts { continue_after_virtual_error: true, ..Default::default() });
        fact_classes(&mut out, &t);
        if matches!(t.end, ri::RiEnd::StepCap) && t.items.is_empty() {
            out.discard("step-cap-before-first-row");
            return out;
        }
        // only Z/X reads may end the reference run in this profile
        let last_hazard = t.items.last().and_then(|i| match i {
            ri::RiItem::Hazard { hazard, .. } => Some(hazard.clone()),
            _ => None,
        });
        if let Some(h) = &last_hazard {
            if !matches!(h, ri::Hazard::ZxRead(_)) {
                out.discard("other-hazard");
                return out;
            }
            out.class("zx-error-due");
        }
        out.class_if(t.facts.fresh_reads > 0, "fresh-read");
        {
            let mut seen_err = false;
            for i in &t.items {
                match i {
                    ri::RiItem::Hazard { after_call: true, .. } => seen_err = true,
                    ri::RiItem::Row(_) if seen_err => out.class("row-after-virtual-error"),
                    _ => {}
                }
            }
        }
        // a read evaluated before the first row: first statement chain reads the device
        if let Some(crate::model::Stmt::Let(_, e)) = built.prog.stmts.first() {
            let mut reads = false;
            e.visit(&mut |x| {
                if let crate::model::Expr::Var(n) = x {
                    if built.analysis.reads.contains(n) {
                        reads = true
                    }
                }
            });
            out.class_if(reads, "read-before-first-row");
        }
        let Some(tc) = load_wellformed(&mut out, "c04", &text, &built.sigs) else {
            return out;
        };
        let real = run_real(&tc, &built.sigs, &spec, &RunOpts { max_next: next_budget(&t), fuel: fuel_for(t.facts.steps), continue_after_error: true, ..Default::default() });
        if !t.ctor_missing.is_empty() {
            out.class("ctor-refusal-due");
            out.nontrivial = true;
            match &real.ctor {
                Some(RealItem::RuntimeErr(_)) => {
                    if real.log.len() != 1 {
                        out.fail("c04:ctor-refusal-calls", format!("constructor refused after {} driver calls, should be exactly 1", real.log.len()));
                    }
                }
                Some(RealItem::Panic(p)) => out.fail(p.key(), format!("constructor panicked: {p}")),
                other => out.fail(
                    "c04:missing-read-output-accepted",
                    format!(
                        "the program reads {:?}, which the driver does not supply; constructing the iterator must fail, got {:?}",
                        t.ctor_missing,
                        other.as_ref().map(|o| o.short())
                    ),
                ),
            }
            return out;
        }
        if let Some((k, m)) = trace_diff(&t, &real, Projection::INPUTS_EXPECTED) {
            let ropts = ri::RiOpts { continue_after_virtual_error: true, ..Default::default() };
            if !k.starts_with("panic:") && !still_differs_with_real_call_indices(&built.prog, &built.sigs, &spec, &ropts, &real, Projection::INPUTS_EXPECTED) {
                out.class("difference-caused-by-call-protocol-only");
                return out;
            }
            let key = if k.starts_with("panic:") { k } else { format!("c04:{k}") };
            out.fail(key, m);
        }
        out.nontrivial = t.facts.fresh_reads > 0 || last_hazard.is_some();
        out
    }
}
