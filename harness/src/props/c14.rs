//! C14 - virtual signals are computed from the same row's outputs, blind to variables.
//!
//! As built (DESIGN 8.4b): self-consistent oracle, no reference interpreter. For every checked
//! row the declared expressions are evaluated by the harness's independent evaluator over the
//! answers the recording driver gave in the call made for that very row, with no variables;
//! the row's virtual entries must show exactly that (64 bits wide), a Z/X read means the row
//! must have been an error item, and the expected value of a virtual entry is the literal in
//! its column (known from the generating program through the row's tag) or X without a column.

use std::collections::BTreeMap;

use crate::choice::Ch;
use crate::device::*;
use crate::engine::*;
use crate::gen::*;
use crate::model::*;
use crate::probe::*;
use crate::props::common::*;
use crate::real::*;
use crate::ri::{eval_expr, Hazard, MapResolver};

pub struct C14;

fn virtual_cfg() -> Cfg {
    let mut c = Cfg::flow();
    c.n_out = (1, 3);
    c.n_bidir = (0, 1);
    c.max_virtual = 4;
    c.min_virtual = 1;
    c.allow_c = true;
    c.allow_input_x = true;
    c.max_x = 2;
    c.w_let = 8;
    c.max_depth = 3;
    c.widths = Widths::All64;
    c.expr.boundary = true;
    c.expr.radix = false;
    // the device may answer with 64-bit boundary values: never use one directly as a loop bound
    c.small_device = false;
    // row values are whatever the expressions give (negative ones included)
    c.fit = Fit::Free;
    c
}

impl Property for C14 {
    fn id(&self) -> &'static str {
        "C14"
    }
    fn rule(&self) -> &'static str {
        "profile `virtual`: 1-4 `declare`s over output-capable signals (all operators, ite, boundary literals), placed at the top, between rows, inside loops and whiles; variables and loop counters named like the outputs they read (Q, R, IO are in the variable pool); header with or without the virtual's column; C and X rows (every checked item of an expansion has its own call and its own virtual values); device answers that change on every call and are Z/X in a quarter of the cases; in a quarter of the cases the answer to one call is malformed (an entry dropped or repeated, two entries swapped); the caller keeps iterating after error items; every row statement carries a tag. Oracle (self-consistent): per checked row, each declared expression is evaluated by the independent evaluator over the answers the recording driver gave in the call made for that row, with an empty variable environment: the virtual entry is 64 bits wide and shows that value; if the expression reads a Z/X answer of that call the item must be an error item, not a row; the entry's expected value is the literal (number, X, Z) in the virtual's column of that source row, or X if the header has no such column. Non-trivial: >= 1 declare checked in >= 2 checked rows, or a variable named like a read output definitely in scope at a checked row, or a Z/X error item due; distinct by source + signals + driver."
    }
    fn cases(&self, tier: Tier) -> u64 {
        match tier {
            Tier::Quick => 48000,
            Tier::Thorough => 48000 * 100,
        }
    }
    fn required_classes(&self) -> Vec<&'static str> {
        vec!["declare", "declares>=2", "virtual-zx-error-seen", "same-named-variable-in-scope", "virtual-without-column", "declare-in-block", "clock-triple", "checked-row-after-virtual-error", "checked-row-after-malformed-answer", "literal-expected-checked"]
    }
    fn run(&self, s: &Streams) -> CaseOut {
        let mut out = CaseOut::new();
        let mut built = gen_case(&mut Ch::new(&s[0]), &virtual_cfg());
        // operator binding is C08's business: every operand is parenthesised
        parenthesise_program(&mut built.prog.stmts);
        // One case in five in which a virtual signal has no column of its own: a real output called `<virtual>_out` is
        // added, with a column that holds 5 in every row. That column is the output's, not the virtual's: the virtual's
        // expected value stays X.
        {
            let mut nch = Ch::new(&s[1]);
            let lone: Vec<String> = built.analysis.virtuals.iter().filter(|v| !built.prog.header.contains(v)).cloned().collect();
            if !lone.is_empty() && nch.chance(1, 5) {
                let name = format!("{}_out", lone[0]);
                if !built.sigs.iter().any(|s| s.name == name) && !built.prog.header.contains(&name) {
                    fn add(bl: &mut [Stmt]) {
                        for st in bl {
                            match st {
                                Stmt::Row(_, es) | Stmt::Repeat(_, _, es) => es.push(Entry::Num(5, Radix::Dec)),
                                Stmt::Loop(_, _, inner) | Stmt::While(_, inner) => add(inner),
                                _ => {}
                            }
                        }
                    }
                    add(&mut built.prog.stmts);
                    built.sigs.push(Sig { name: name.clone(), bits: 64, kind: Kind::Out });
                    built.prog.header.push(name);
                    built.cols = col_roles(&built.prog.header, &built.sigs);
                    built.analysis = analyse(&built.prog);
                    out.class("output-named-like-the-out-column-of-a-virtual-without-column");
                }
            }
        }
        // in a third of the cases the pure outputs are declared 1-6 bits wide: what the device reports need not fit, and a
        // declared expression is evaluated over what the device reported
        {
            let mut wch = Ch::new(&s[2]);
            let _ = wch.u64();
            if wch.chance(1, 3) {
                out.class("outputs-narrower-than-the-device-values");
                for sg in built.sigs.iter_mut() {
                    if matches!(sg.kind, Kind::Out) && wch.chance(2, 3) {
                        sg.bits = *wch.choose(&[1usize, 2, 3, 4, 6]);
                    }
                }
            }
        }
        let rows = instrument(&mut built, &mut Ch::new(&s[1]), 0, ProbePref::Vars, &[]);
        let text = built_text(&built);
        let mut dch = Ch::new(&s[2]);
        let mut spec = gen_spec(
            &mut dch,
            &built.sigs,
            &SpecCfg { palette: Palette::Small, zx: 0, free_layout: true, must_supply: built.must_supply(), both_driver_types: true },
        );
        if dch.chance(1, 2) {
            spec.palette = Palette::Boundary;
        }
        if dch.chance(1, 4) {
            spec.zx = 16;
        }
        // in a quarter of the cases the driver's answer to one call is malformed (an entry
        // dropped or repeated, two entries swapped): that row is an error item, the caller goes on, and the virtual
        // signals of later rows are still computed from the outputs alone
        if dch.chance(1, 4) {
            let p = dch.upto(8);
            spec.deviate_at = Some((1 + dch.upto(10), match dch.upto(3) {
                0 => Deviation::Drop(p),
                1 => Deviation::Duplicate(p),
                _ => Deviation::Swap(p, p + 1 + dch.upto(3)),
            }));
        }
        render_case(&mut out, &text, &built.sigs, Some(&spec));
        let f = feats(&built);
        feat_classes(&mut out, &f);
        if f.declares == 0 {
            out.discard("no-declare");
            return out;
        }
        let virtuals: Vec<(String, Expr)> = built.prog.virtuals().iter().map(|(n, e)| (n.to_string(), (*e).clone())).collect();
        let mut in_block = false;
        built.prog.visit_stmts(&mut |st, d| {
            if matches!(st, Stmt::Declare(..)) && d > 0 {
                in_block = true
            }
        });
        out.class_if(in_block, "declare-in-block");
        out.class_if(virtuals.iter().any(|(v, _)| !built.prog.header.contains(v)), "virtual-without-column");
        let vreads: Vec<String> = {
            let mut v = vec![];
            for (_, e) in &virtuals {
                e.visit(&mut |x| {
                    if let Expr::Var(n) = x {
                        v.push(n.clone())
                    }
                });
            }
            v
        };
        let Some(tc) = load_wellformed(&mut out, "c14", &text, &built.sigs) else {
            return out;
        };
        let real = run_real(&tc, &built.sigs, &spec, &RunOpts { max_next: 300, continue_after_error: true, ..Default::default() });
        match &real.ctor {
            Some(RealItem::Panic(p)) => {
                out.fail(p.key(), format!("constructor panicked: {p}"));
                return out;
            }
            Some(_) => {
                out.discard("constructor-failed");
                return out;
            }
            None => {}
        }
        let mut checked_rows = 0usize;
        let mut nontrivial = false;
        let mut seen_virtual_error = false;
        let mut seen_malformed = false;
        for (i, item) in real.items.iter().enumerate() {
            let before = real.log_len_before[i];
            let after = real.log_len_before.get(i + 1).copied().unwrap_or(real.log.len());
            // the answers of the call made for this item, by signal name
            let answer: Option<BTreeMap<String, OutVal>> = if after == before + 1 && real.log[before].read {
                Some(real.log[before].answer.iter().map(|(si, v)| (built.sigs[*si].name.clone(), *v)).collect())
            } else {
                None
            };
            let eval_all = |outs: &BTreeMap<String, OutVal>| -> Vec<(String, Result<i64, Hazard>)> {
                virtuals.iter().map(|(n, e)| (n.clone(), eval_expr(e, &mut MapResolver { vars: None, outs }))).collect()
            };
            match item {
                RealItem::Panic(p) => {
                    out.fail(p.key(), format!("item {i} panicked: {p}"));
                    return out;
                }
                RealItem::DriverErr(_) => break,
                RealItem::RuntimeErr(_) => {
                    if let Some(outs) = &answer {
                        if eval_all(outs).iter().any(|(_, r)| matches!(r, Err(Hazard::ZxRead(_)))) {
                            out.class("virtual-zx-error-seen");
                            seen_virtual_error = true;
                            nontrivial = true;
                            continue;
                        }
                    }
                    // the row whose call got the malformed answer
                    if matches!(&spec.deviate_at, Some((c, _)) if before <= *c && *c < after) {
                        seen_malformed = true;
                        continue;
                    }
                    // an error item that came with its driver call although the answer is well
                    // formed and every declared expression can be evaluated over it (ite only
                    // evaluates the branch it selects): nothing explains it
                    if let Some(outs) = &answer {
                        if eval_all(outs).iter().all(|(_, r)| r.is_ok()) {
                            out.fail(
                                "c14:error-instead-of-row",
                                format!("item {i} is an error item, but every declared expression can be evaluated over the outputs the driver returned for this row ({outs:?})"),
                            );
                            return out;
                        }
                    }
                    // some other error (an expression of the program, most likely): what the
                    // program state is afterwards is not this property's business
                    break;
                }
                RealItem::Row(row) => {
                    if after != before + 1 {
                        out.discard("call-protocol-broken");
                        return out;
                    }
                    if row.outputs.is_empty() {
                        out.class("clock-triple");
                        continue;
                    }
                    let Some(outs) = &answer else {
                        out.discard("call-protocol-broken");
                        return out;
                    };
                    checked_rows += 1;
                    out.class_if(seen_virtual_error, "checked-row-after-virtual-error");
                    out.class_if(seen_malformed, "checked-row-after-malformed-answer");
                    let info = match row.inputs.iter().find(|e| e.0 == "TAG").map(|e| e.1) {
                        Some(InVal::Val(t)) => rows.get(&((t - 1) as usize)),
                        _ => None,
                    };
                    if let Some(info) = info {
                        if info.definite.iter().any(|n| vreads.contains(n)) {
                            out.class("same-named-variable-in-scope");
                            nontrivial = true;
                        }
                    }
                    let n_virtual = row.outputs.iter().filter(|o| o.is_virtual).count();
                    if n_virtual != virtuals.len() {
                        out.fail(
                            "c14:virtual-entry-count",
                            format!("item {i}: the checked row has {n_virtual} virtual entries, the test declares {}", virtuals.len()),
                        );
                        return out;
                    }
                    for (name, want) in eval_all(outs) {
                        let Some(entry) = row.outputs.iter().find(|o| o.is_virtual && o.name == name) else {
                            out.fail("c14:virtual-entry-missing", format!("item {i}: no entry for the declared signal {name}"));
                            return out;
                        };
                        if entry.bits != 64 {
                            out.fail("c14:virtual-width", format!("item {i}: virtual signal {name} is {} bits wide, must be 64", entry.bits));
                            return out;
                        }
                        match want {
                            Ok(v) => {
                                if entry.output != OutVal::Val(v) {
                                    out.fail(
                                        "c14:virtual-value",
                                        format!(
                                            "item {i}: {name} = {} reported; the declared expression over the outputs the driver returned for this row ({outs:?}), with no variables, is {v}",
                                            entry.output
                                        ),
                                    );
                                    return out;
                                }
                            }
                            Err(Hazard::ZxRead(sig)) => {
                                out.fail(
                                    "c14:row-instead-of-error",
                                    format!(
                                        "item {i}: the declared signal {name} reads {sig}, for which the driver returned {:?} in this row's call; the row must be an error item, got a row with {name} = {}",
                                        outs.get(&sig),
                                        entry.output
                                    ),
                                );
                                return out;
                            }
                            Err(_) => {}
                        }
                        // expected value: the literal in the virtual's column, X without a column
                        let want_expected = if !built.prog.header.contains(&name) {
                            Some(ExpVal::X)
                        } else {
                            info.and_then(|inf| {
                                inf.literal_cols
                                    .iter()
                                    .find(|(h, _)| *h == name)
                                    .map(|(_, v)| *v)
                                    // (a virtual signal is 64 bits wide: a constant expression keeps its value)
                                    .or_else(|| inf.constant_cols.iter().find(|(h, _)| *h == name).map(|(_, v)| ExpVal::Val(*v)))
                            })
                        };
                        if let Some(we) = want_expected {
                            out.class("literal-expected-checked");
                            if entry.expected != we {
                                out.fail(
                                    "c14:virtual-expected",
                                    format!("item {i}: the expected value of {name} is {}, its column holds the literal {we} (X when the header has no such column)", entry.expected),
                                );
                                return out;
                            }
                        }
                    }
                }
            }
        }
        out.nontrivial = nontrivial || checked_rows >= 2;
        out
    }
}
