//! C14 - virtual signals are computed from the same row's outputs, blind to variables.

use crate::choice::Ch;
use crate::device::*;
use crate::engine::*;
use crate::gen::*;
use crate::props::common::*;
use crate::real::*;
use crate::ri;

pub struct C14;

fn virtual_cfg() -> Cfg {
    let mut c = Cfg::flow();
    c.n_out = (1, 3);
    c.n_bidir = (0, 1);
    c.max_virtual = 4;
    c.min_virtual = 1;
    c.allow_c = true;
    c.w_let = 8;
    c.max_depth = 3;
    c.widths = Widths::All64;
    c.expr.boundary = true;
    c.expr.radix = false;
    c
}

impl Property for C14 {
    fn id(&self) -> &'static str {
        "C14"
    }
    fn rule(&self) -> &'static str {
        "profile `virtual`: 1-4 `declare`s over output-capable signals (all operators, ite, boundary literals), placed at the top, between rows, inside loops and whiles; variables and loop counters named like the outputs they read (Q, R, IO are in the variable pool); header with or without the virtual's column; device answers that change on every call and are Z/X in some cases. Oracle: per checked row the virtual entry is 64 bits wide, its output equals the declared expression evaluated by the independent evaluator over the answers of that same call with an empty variable environment, its expected value is the entry of its column or X; if the expression reads a Z/X answer in that call the item is an error item (not a row, not a panic). Non-trivial: >= 1 declare evaluated in >= 2 checked rows, or a variable named like a read output is in scope at a checked row; distinct by source + signals + driver."
    }
    fn cases(&self, tier: Tier) -> u64 {
        match tier {
            Tier::Quick => 48000,
            Tier::Thorough => 48000 * 100,
        }
    }
    fn required_classes(&self) -> Vec<&'static str> {
        vec!["declare", "declares>=2", "virtual-zx-error-due", "same-named-variable-in-scope", "virtual-without-column", "declare-in-block", "clock-triple", "checked-row-after-virtual-error"]
    }
    fn run(&self, s: &Streams) -> CaseOut {
        let mut out = CaseOut::new();
        let mut built = gen_case(&mut Ch::new(&s[0]), &virtual_cfg());
        // operator binding is C08's business: every operand is parenthesised
        parenthesise_program(&mut built.prog.stmts);
        let rendered = crate::print::canonical(&built.prog);
        let row_lines = rendered.row_line.clone();
        let text = rendered.text;
        let mut dch = Ch::new(&s[2]);
        let mut spec = gen_spec(
            &mut dch,
            &built.sigs,
            &SpecCfg { palette: Palette::Small, zx: 0, free_layout: true, must_supply: built.must_supply(), both_driver_types: true },
        );
        if dch.chance(1, 2) {
            spec.palette = Palette::Boundary;
        }
        if dch.chance(1, 4) {
            spec.zx = 16;
        }
        render_case(&mut out, &text, &built.sigs, Some(&spec));
        let f = feats(&built);
        feat_classes(&mut out, &f);
        if f.declares == 0 {
            out.discard("no-declare");
            return out;
        }
        let mut in_block = false;
        built.prog.visit_stmts(&mut |st, d| {
            if matches!(st, crate::model::Stmt::Declare(..)) && d > 0 {
                in_block = true
            }
        });
        out.class_if(in_block, "declare-in-block");
        out.class_if(built.analysis.virtuals.iter().any(|v| !built.prog.header.contains(v)), "virtual-without-column");
        // the caller keeps iterating after a virtual signal made a row an error item
        let t = ri::run(&built.prog, &built.sigs, &spec, &ri::RiOpts { continue_after_virtual_error: true, ..Default::default() });
        fact_classes(&mut out, &t);
        if matches!(t.end, ri::RiEnd::StepCap) && t.items.is_empty() {
            out.discard("step-cap-before-first-row");
            return out;
        }
        let last_h = t.items.iter().rev().find_map(|i| match i {
            ri::RiItem::Hazard { hazard, after_call } => Some((hazard.clone(), *after_call)),
            _ => None,
        });
        out.class_if(matches!(&last_h, Some((ri::Hazard::ZxRead(_), true))), "virtual-zx-error-due");
        // rows that follow an error item caused by a virtual signal
        let mut after_err = false;
        let mut seen_err = false;
        for i in &t.items {
            match i {
                ri::RiItem::Hazard { after_call: true, .. } => seen_err = true,
                ri::RiItem::Row(r) if seen_err && r.checked => after_err = true,
                _ => {}
            }
        }
        out.class_if(after_err, "checked-row-after-virtual-error");
        // a variable named like an output that a virtual signal reads is in scope at a checked row
        let vreads: Vec<String> = {
            let mut v = vec![];
            for (_, e) in built.prog.virtuals() {
                e.visit(&mut |x| {
                    if let crate::model::Expr::Var(n) = x {
                        v.push(n.clone())
                    }
                });
            }
            v
        };
        let shadow = t.items.iter().any(|i| matches!(i, ri::RiItem::Row(r) if r.checked && r.env.keys().any(|k| vreads.contains(k))));
        out.class_if(shadow, "same-named-variable-in-scope");
        let Some(tc) = load_wellformed(&mut out, "c14", &text, &built.sigs) else {
            return out;
        };
        let real = run_real(&tc, &built.sigs, &spec, &RunOpts { max_next: next_budget(&t), fuel: fuel_for(t.facts.steps), continue_after_error: true, ..Default::default() });
        // Walk both traces in lock-step. Only the virtual entries (and error items caused by
        // virtual signals) are this property's; as soon as anything else differs from the
        // reference - inputs, ordinary expected/output values, row count, other errors - the
        // comparison stops quietly: that is some other property's business.
        if let Some(RealItem::Panic(p)) = &real.ctor {
            out.fail(p.key(), format!("constructor panicked: {p}"));
            return out;
        }
        if real.ctor.is_none() {
            for (i, item) in t.items.iter().enumerate() {
                let Some(ritem) = real.items.get(i) else { break };
                match (item, ritem) {
                    (ri::RiItem::Row(a), RealItem::Row(b)) => {
                        let non_virtual = Projection { inputs: true, expected: true, outputs: true, checkedness: true, virtual_only: false };
                        // compare the non-virtual part first (virtual entries masked out)
                        let mut a2 = a.clone();
                        a2.outputs.retain(|o| !o.is_virtual);
                        let mut b2 = b.clone();
                        b2.outputs.retain(|o| !o.is_virtual);
                        if row_diff(&a2, &b2, non_virtual).is_some() || row_lines.get(a.row_id) != Some(&b.line) {
                            // a different source row, or different values: not this property's
                            out.class("rows-diverged");
                            break;
                        }
                        if a.checked && b.outputs.len() != a.outputs.len() {
                            out.fail(
                                "c14:virtual-entry-count",
                                format!("item {i}: the row has {} output entries, {} are due ({} virtual)", b.outputs.len(), a.outputs.len(), a.outputs.iter().filter(|o| o.is_virtual).count()),
                            );
                            break;
                        }
                        if let Some(d) = row_diff(a, b, Projection::VIRTUAL) {
                            out.fail("c14:virtual-entry", format!("item {i}: {d}\n reference: {}\n real:      {}", fmt_ri_row(a), ritem.short()));
                            break;
                        }
                    }
                    (ri::RiItem::Hazard { after_call: true, .. }, RealItem::RuntimeErr(_)) => {}
                    (ri::RiItem::Hazard { hazard, after_call: true }, RealItem::Row(_)) => {
                        out.fail(
                            "c14:row-instead-of-error",
                            format!("item {i}: a virtual signal reads a Z/X output in this call ({hazard:?}); the row must be an error item, got {}", ritem.short()),
                        );
                        break;
                    }
                    (_, RealItem::Panic(p)) => {
                        out.fail(p.key(), format!("item {i} panicked: {p}"));
                        break;
                    }
                    _ => {
                        out.class("rows-diverged");
                        break;
                    }
                }
            }
        }
        let checked = t.items.iter().filter(|i| matches!(i, ri::RiItem::Row(r) if r.checked)).count();
        out.nontrivial = checked >= 2 || shadow || matches!(&last_h, Some((_, true)));
        out
    }
}
