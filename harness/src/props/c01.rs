//! C01 - control flow and variables decide exactly which rows run (DESIGN section 4, C01).

use crate::choice::Ch;
use crate::device::*;
use crate::engine::*;
use crate::gen::*;
use crate::props::common::*;
use crate::real::*;
use crate::ri;

pub struct C01;

/// Plant 1-3 statements whose expression divides by a literal zero at random places.
fn plant_errors(b: &mut Built, ch: &mut Ch) -> usize {
    use crate::model::*;
    let cols = b.cols.clone();
    let mut next_id = b.prog.row_count();
    let mut planted = 0;
    let mut want = 1 + ch.upto(3);
    fn bad() -> Expr {
        Expr::bin(BinOp::Div, Expr::lit(7), Expr::lit(0))
    }
    fn go(bl: &mut Vec<Stmt>, ch: &mut Ch, cols: &[Col], next_id: &mut usize, planted: &mut usize, want: &mut usize, depth: usize) {
        let mut i = 0;
        while i <= bl.len() {
            if *want > 0 && ch.chance(1, 4) {
                // (the entry that cannot be evaluated stands in any column; the input columns left of it hold 1, those
                // right of it 0: whatever has been evaluated when the row fails must not show up anywhere later)
                let fc = ch.upto(cols.len().max(1));
                // (one time in three it is a `bits(0, (7 / 0))` entry put in front of column fc: it fills no column, and
                // its expression is evaluated - and fails - all the same)
                let zero_width = ch.chance(1, 3);
                let row = |id: usize| -> Vec<Entry> {
                    let _ = id;
                    let mut es: Vec<Entry> = cols
                        .iter()
                        .enumerate()
                        .map(|(k, c)| if k == fc && !zero_width { Entry::Paren(bad()) } else if c.role == ColRole::ExpectedOnly { Entry::X(true) } else { Entry::Num((k < fc) as u64, Radix::Dec) })
                        .collect();
                    if zero_width {
                        es.insert(fc.min(es.len()), Entry::Bits(0, bad()));
                    }
                    es
                };
                let st = match ch.upto(5) {
                    0 => {
                        *next_id += 1;
                        Stmt::Row(*next_id - 1, row(0))
                    }
                    1 => Stmt::Let("hz".into(), Expr::bin(BinOp::Rem, Expr::lit(7), Expr::lit(0))),
                    2 => {
                        *next_id += 1;
                        Stmt::Repeat(Expr::lit(2), *next_id - 1, row(0))
                    }
                    3 => {
                        *next_id += 1;
                        Stmt::Loop("zq".into(), bad(), vec![Stmt::Row(*next_id - 1, row(0))])
                    }
                    // the bound is evaluated on entry whether or not the body holds anything
                    _ => Stmt::Loop("zq".into(), bad(), vec![]),
                };
                bl.insert(i, st);
                *planted += 1;
                *want -= 1;
                i += 1;
            }
            if i < bl.len() {
                if let Stmt::Loop(_, _, inner) | Stmt::While(_, inner) = &mut bl[i] {
                    if depth < 4 {
                        go(inner, ch, cols, next_id, planted, want, depth + 1);
                    }
                }
            }
            i += 1;
        }
    }
    go(&mut b.prog.stmts, ch, &cols, &mut next_id, &mut planted, &mut want, 0);
    b.analysis = analyse(&b.prog);
    planted
}

pub fn flow_cfg() -> Cfg {
    let mut c = Cfg::flow();
    // what operators mean and how they bind is C08's business, literal radix C20's, which
    // device value an expression sees and whether a variable beats an output C04's: this
    // profile parenthesises every operand, writes decimal literals, never names a variable
    // like a signal, and talks to a device that answers the same on every call
    c.expr.full_parens = true;
    c.expr.radix = false;
    c.vars_like_signals = false;
    c
}

impl Property for C01 {
    fn id(&self) -> &'static str {
        "C01"
    }
    fn rule(&self) -> &'static str {
        "profile `flow`: programs (nesting <= 5) of let/loop/repeat/while/resetRandom/rows decoded from a choice stream, bounds from {literals -3..4, variables, arithmetic on counters, device reads}, total expressions, values masked to fit; in a third of the cases 1-3 statements that divide by a literal zero are planted (row, let, repeat row, loop bound with and without a body) and the caller goes on after each error item; in a fifth a loop is planted whose bound `(6 / dz)` is evaluable on entry only (the body sets dz to 0); in a fifth the driver's answer to one call is malformed (that row is an error item, the caller goes on); sub-profile `names` (a quarter): no device reads, variables and counters may be named like output signals, the device answers differently on every call (elsewhere: no signal-named variables, a device that answers the same on every call); oracle = reference interpreter trace (row count, per row inputs + expected values, end of iteration). Non-trivial: source has nesting>=2 | bound<=0 reached | computed/device bound | shadowing | let in loop body | loop inside while, and the run yields >= 2 rows; distinct by hash of source + signal list + driver script."
    }
    fn cases(&self, tier: Tier) -> u64 {
        match tier {
            Tier::Quick => 48000,
            Tier::Thorough => 48000 * 100,
        }
    }
    fn required_classes(&self) -> Vec<&'static str> {
        vec!["nesting>=2", "bound<=0-reached", "shadowing", "let-in-loop-body", "loop-in-while", "reads-device", "repeat", "bits()", "bits(k>=33)", "bits(0)", "planted-error-statements", "row-in-loop-after-error-item", "names-sub-profile", "rows-after-malformed-answer", "empty-loop-body", "planted-bound-that-cannot-be-evaluated-again", "planted-variable-first-bound-in-a-while-body", "planted-while-of-whiles"]
    }
    fn assumptions(&self) -> Vec<&'static str> {
        vec![
            "reference interpreter, printer and static analysis in /verif/harness/src are correct renderings of the property statement",
            "excluded by construction: let rebinding the counter of the innermost enclosing loop frame; expression hazards (C10)",
        ]
    }
    fn run(&self, s: &Streams) -> CaseOut {
        let mut out = CaseOut::new();
        // the reference run shows that the program terminates: a run-away next() is a violation
        out.fuel_is_violation = true;
        let mut cfg = flow_cfg();
        // one case in twelve has a wide bus so that bits(k,e) with k up to 64 occurs
        let mut lch = Ch::new(&s[1]);
        cfg.bus = lch.chance(1, 12);
        // sub-profile `names` (one case in four): the program never reads the device, but its
        // variables and counters may be named like output signals, and the device answers
        // differently on every call. A `let` binds a variable whatever the device shows.
        let names = lch.chance(1, 4);
        if names {
            cfg.vars_like_signals = true;
            cfg.reads = false;
        }
        let mut built = gen_case(&mut Ch::new(&s[0]), &cfg);
        parenthesise_program(&mut built.prog.stmts);
        // In a third of the cases statements that cannot be evaluated (division by literal
        // zero) are planted anywhere in the program: a row, a `let`, a repeat row, a loop
        // bound. Each yields an error item; the caller keeps iterating, and the sequential
        // reading goes on with the next statement (the failing one is skipped).
        let mut pch = Ch::new(&s[2]);
        let _ = pch.u64();
        let planted = if pch.chance(1, 3) { plant_errors(&mut built, &mut pch) } else { 0 };
        // In a fifth of the cases: `let dz = 2;` / `loop(lz, (6 / dz))` / `let dz = 0;` / row /
        // `end loop` at a top-level position. The bound is evaluated once on entry (3 passes);
        // inside the body it could no longer be evaluated.
        if pch.chance(1, 5) {
            use crate::model::*;
            let id = built.prog.row_count();
            let es: Vec<Entry> = built.cols.iter().map(|c| if c.role == ColRole::ExpectedOnly { Entry::X(true) } else { Entry::Num(0, Radix::Dec) }).collect();
            let at = pch.upto(built.prog.stmts.len() + 1);
            let new = vec![
                Stmt::Let("dz".into(), Expr::lit(2)),
                Stmt::Loop(
                    "lz".into(),
                    Expr::Group(Box::new(Expr::bin(BinOp::Div, Expr::lit(6), Expr::var("dz")))),
                    vec![Stmt::Let("dz".into(), Expr::lit(0)), Stmt::Row(id, es)],
                ),
            ];
            for (k, st) in new.into_iter().enumerate() {
                built.prog.stmts.insert(at + k, st);
            }
            built.analysis = analyse(&built.prog);
            out.class("planted-bound-that-cannot-be-evaluated-again");
        }
        out.class_if(planted > 0, "planted-error-statements");
        out.class_if(cfg.bus, "wide-bus");
        built.prog.visit_stmts(&mut |st, _| {
            if let crate::model::Stmt::Row(_, es) | crate::model::Stmt::Repeat(_, _, es) = st {
                for e in es {
                    if let crate::model::Entry::Bits(k, _) = e {
                        out.class_if(*k >= 33, "bits(k>=33)");
                        out.class_if(*k == 64, "bits(64)");
                        out.class_if(*k == 0, "bits(0)");
                    }
                }
            }
        });
        // In a fifth of the cases: `let wv = 1;` / `while(wv)` / `let nw = 5;` / `let wv = 0;` /
        // `end while` / a row showing (nw) at a top-level position: `while` opens no scope, so a
        // variable first bound in its body (which runs exactly once here) lives on behind it.
        if pch.chance(1, 5) {
            use crate::model::*;
            let id = built.prog.row_count();
            let mut first_input = true;
            let es: Vec<Entry> = built
                .cols
                .iter()
                .map(|c| {
                    if c.role == ColRole::ExpectedOnly {
                        Entry::X(true)
                    } else if first_input && c.min_bits >= 3 {
                        first_input = false;
                        Entry::Paren(Expr::var("nw"))
                    } else {
                        Entry::Num(0, Radix::Dec)
                    }
                })
                .collect();
            let at = pch.upto(built.prog.stmts.len() + 1);
            let new = vec![
                Stmt::Let("wv".into(), Expr::lit(1)),
                Stmt::While(Expr::var("wv"), vec![Stmt::Let("nw".into(), Expr::lit(5)), Stmt::Let("wv".into(), Expr::lit(0))]),
                Stmt::Row(id, es),
            ];
            for (k, st) in new.into_iter().enumerate() {
                built.prog.stmts.insert(at + k, st);
            }
            built.analysis = analyse(&built.prog);
            out.class("planted-variable-first-bound-in-a-while-body");
        }
        // In a sixth of the cases: `let wa = 0;` `let wt = 0;` / `while((wa < 3))` / `while((wt = 0))` `let wt = 1;` `end
        // while` / `while(wt)` `let wa = (wa + 1);` `let wt = 0;` `end while` / `end while` / a row showing (wa). The
        // outer body holds nothing but the two inner `while`s - no row, no `let` of its own; it runs three times all the
        // same (what the inner bodies bind is bound in the enclosing scope: `while` opens none), and the row shows 3.
        if pch.chance(1, 6) {
            use crate::model::*;
            let id = built.prog.row_count();
            let mut first_input = true;
            let es: Vec<Entry> = built
                .cols
                .iter()
                .map(|c| {
                    if c.role == ColRole::ExpectedOnly {
                        Entry::X(true)
                    } else if first_input && c.min_bits >= 3 {
                        first_input = false;
                        Entry::Paren(Expr::var("wa"))
                    } else {
                        Entry::Num(0, Radix::Dec)
                    }
                })
                .collect();
            let at = pch.upto(built.prog.stmts.len() + 1);
            let g = |e: Expr| Expr::Group(Box::new(e));
            let new = vec![
                Stmt::Let("wa".into(), Expr::lit(0)),
                Stmt::Let("wt".into(), Expr::lit(0)),
                Stmt::While(
                    g(Expr::bin(BinOp::Lt, g(Expr::var("wa")), g(Expr::lit(3)))),
                    vec![
                        Stmt::While(g(Expr::bin(BinOp::Eq, g(Expr::var("wt")), g(Expr::lit(0)))), vec![Stmt::Let("wt".into(), Expr::lit(1))]),
                        Stmt::While(g(Expr::var("wt")), vec![Stmt::Let("wa".into(), g(Expr::bin(BinOp::Add, g(Expr::var("wa")), g(Expr::lit(1))))), Stmt::Let("wt".into(), Expr::lit(0))]),
                    ],
                ),
                Stmt::Row(id, es),
            ];
            for (k, st) in new.into_iter().enumerate() {
                built.prog.stmts.insert(at + k, st);
            }
            built.analysis = analyse(&built.prog);
            out.class("planted-while-of-whiles");
        }
        let text = built_text(&built);
        let spec = gen_spec(
            &mut Ch::new(&s[2]),
            &built.sigs,
            &SpecCfg {
                palette: Palette::Small,
                zx: 0,
                free_layout: false,
                must_supply: built.must_supply(),
                both_driver_types: false,
            },
        );
        let mut spec = DriverSpec { constant: !names, ..spec };
        out.class_if(names, "names-sub-profile");
        // in a fifth of the cases the driver's answer to one call is malformed (an entry dropped
        // or repeated, two entries swapped): that row is an error item, the caller goes on, and the sequential
        // reading continues with an unchanged environment
        {
            let mut fch = Ch::new(&s[2]);
            let _ = (fch.u64(), fch.u64());
            if fch.chance(1, 5) {
                let p = fch.upto(8);
                // (an answer that lacks an output leaves later reads of that output without a
                // value: entries are only dropped where the program reads nothing)
                let drop = fch.chance(1, 2) && built.analysis.reads.is_empty();
                let dev = if drop {
                    Deviation::Drop(p)
                } else if fch.chance(1, 2) {
                    Deviation::Duplicate(p)
                } else {
                    // same entries, another order
                    Deviation::Swap(p, p + 1 + fch.upto(3))
                };
                spec.deviate_at = Some((1 + fch.upto(12), dev));
            }
        }
        render_case(&mut out, &text, &built.sigs, Some(&spec));
        let f = feats(&built);
        feat_classes(&mut out, &f);
        let ropts = ri::RiOpts { continue_after_expression_error: true, ..Default::default() };
        let t = ri::run(&built.prog, &built.sigs, &spec, &ropts);
        fact_classes(&mut out, &t);
        if matches!(t.end, ri::RiEnd::StepCap) && t.items.is_empty() {
            out.discard("step-cap-before-first-row");
            return out;
        }
        if matches!(t.end, ri::RiEnd::Error) {
            out.discard("hazard-in-total-profile");
            return out;
        }
        let n_err = t.items.iter().filter(|i| matches!(i, ri::RiItem::Hazard { .. })).count();
        out.class_if(n_err > 0, "error-items-due");
        out.class_if(
            n_err > 0 && t.items.iter().skip_while(|i| !matches!(i, ri::RiItem::Hazard { .. })).any(|i| matches!(i, ri::RiItem::Row(r) if r.depth > 0)),
            "row-in-loop-after-error-item",
        );
        let Some(tc) = load_wellformed(&mut out, "c01", &text, &built.sigs) else {
            return out;
        };
        let real = run_real(&tc, &built.sigs, &spec, &RunOpts { max_next: next_budget(&t), fuel: fuel_for(t.facts.steps), continue_after_error: true, ..Default::default() });
        let mut t = t;
        if excuse_malformed_answer(&mut t, &real, &spec) {
            out.class("malformed-answer-error-item");
            let k = t.items.iter().position(|i| matches!(i, ri::RiItem::Hazard { hazard: ri::Hazard::Unresolved(m), .. } if m == "malformed driver answer")).unwrap_or(0);
            out.class_if(t.items.iter().skip(k + 1).any(|i| matches!(i, ri::RiItem::Row(_))), "rows-after-malformed-answer");
        }
        if let Some((k, m)) = trace_diff(&t, &real, Projection::INPUTS_EXPECTED) {
            if !k.starts_with("panic:") && !still_differs_with_real_call_indices(&built.prog, &built.sigs, &spec, &ropts, &real, Projection::INPUTS_EXPECTED) {
                out.class("difference-caused-by-call-protocol-only");
                return out;
            }
            let key = if k.starts_with("panic:") { k } else { format!("c01:{k}") };
            out.fail(key, m);
        }
        let structural = f.depth >= 2
            || t.facts.bound_le0 > 0
            || f.computed_bound
            || f.shadowing
            || f.lets_in_loops > 0
            || f.loop_in_while;
        out.nontrivial = structural && t.items.len() >= 2;
        out
    }
}
