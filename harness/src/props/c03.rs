//! C03 - outputs are attributed to the right signal; verdicts follow the X/Z rules.

use crate::choice::Ch;
use crate::device::*;
use crate::engine::*;
use crate::gen::*;
use crate::model::*;
use crate::print::*;
use crate::props::common::*;
use crate::real::*;

pub struct C03;

fn table_check(expected: ExpVal, output: OutVal) -> bool {
    match (expected, output) {
        (ExpVal::X, _) => true,
        (ExpVal::Z, OutVal::Z) => true,
        (ExpVal::Val(a), OutVal::Val(b)) => a == b,
        _ => false,
    }
}

impl Property for C03 {
    fn id(&self) -> &'static str {
        "C03"
    }
    fn rule(&self) -> &'static str {
        "profile `attribution`: 2-9 output-capable signals (64 bits wide, or in half of the cases of any width: the driver's values need not fit) (now and then two whose names differ in letter case only) (outputs and bidirectionals interleaved with inputs), 0-2 virtual signals, loop-free rows (some with C), `let` statements binding variables named like output-capable signals in a quarter of the positions, driver layout = random subset in random order, per-call values from a wide palette (arbitrary 64-bit, boundary, small, Z, X), expected entries drawn to agree with what the script returns in that call in about half of the entries and to disagree / be X / be Z otherwise. In a third of the cases another iterator over the same TestCase has run before against a driver with a different layout of the same length. In a quarter of the cases the driver fails on one call (the caller goes on; an item that is a checked row by its position must report its outputs). A row that a virtual signal turns into an error item (it read Z/X) does not end the run: the caller goes on and the rows after it are checked the same way. Oracle: for every checked row, entry.output == what the recording driver returned for that signal in that row's call (X if not in the layout); check() by an independent 3x3 table; is_checked() iff expected != X; failing_outputs() == exactly the entries that do not pass. Non-trivial: layout is a proper subset or non-identity permutation, >= 2 supplied outputs differ in some call, both verdicts occur; distinct by source + signals + driver."
    }
    fn cases(&self, tier: Tier) -> u64 {
        match tier {
            Tier::Quick => 48000,
            Tier::Thorough => 48000 * 100,
        }
    }
    fn stream_lens(&self) -> [usize; 3] {
        [300, 8, 60]
    }
    fn required_classes(&self) -> Vec<&'static str> {
        vec!["layout-subset", "layout-permuted", "output-Z", "output-X", "expected-Z", "pass", "fail", "Z-matches-Z", "X-output-vs-number", "virtual", "bidirectional", "supplied-output-not-in-header", "variable-named-like-output", "checked-row-after-error-item", "row-after-driver-failure", "another-iterator-with-another-layout-ran-before", "outputs-differing-in-letter-case-only"]
    }
    fn run(&self, s: &Streams) -> CaseOut {
        let mut out = CaseOut::new();
        let mut ch = Ch::new(&s[0]);
        let mut cfg = Cfg::flow();
        cfg.n_in = (1, 3);
        cfg.n_out = (1, 6);
        cfg.n_bidir = (0, 2);
        cfg.interleave = true;
        // (half of the cases: signals of any width - the driver's values are what they are,
        // also when they do not fit the signal they are reported for)
        let mut wch = Ch::new(&s[1]);
        cfg.widths = if wch.chance(1, 2) { Widths::Mixed } else { Widths::All64 };
        // one case in twenty-five: 16-65 more one-bit outputs (answers of more than 64 entries, in any order)
        if wch.chance(1, 25) {
            cfg.bus = true;
            out.class("many-more-outputs");
        }
        cfg.odd_names = true;
        cfg.omit_cols = true;
        cfg.permute_header = true;
        let mut sigs = gen_signals(&mut ch, &cfg);
        // now and then an output has a twin whose name differs in the case of its letters only
        // (same width): two signals all the same
        if ch.chance(1, 6) {
            if let Some(o) = sigs.iter().find(|s| matches!(s.kind, Kind::Out) && is_ident(&s.name) && s.name.to_lowercase() != s.name).cloned() {
                let twin = o.name.to_lowercase();
                if !sigs.iter().any(|s| s.name == twin) {
                    let at = ch.upto(sigs.len() + 1);
                    sigs.insert(at, Sig { name: twin, bits: o.bits, kind: Kind::Out });
                    out.class("outputs-differing-in-letter-case-only");
                }
            }
        }
        let nv = ch.upto(3);
        let outs: Vec<String> = sigs.iter().filter(|s| s.is_output() && is_ident(&s.name)).map(|s| s.name.clone()).collect();
        let mut virtuals = vec![];
        for n in VIRT_NAMES.iter().take(nv) {
            virtuals.push((n.to_string(), true));
        }
        let header = gen_header(&mut ch, &cfg, &sigs, &virtuals);
        let cols = col_roles(&header, &sigs);
        let mut dch = Ch::new(&s[2]);
        let mut spec = gen_spec(
            &mut dch,
            &sigs,
            &SpecCfg {
                palette: Palette::Wide,
                zx: 48,
                free_layout: true,
                // virtual signals read outputs: those must be supplied
                must_supply: vec![],
                both_driver_types: true,
            },
        );
        // virtual expressions only over supplied outputs
        let supplied: Vec<String> = spec.layout.iter().map(|i| sigs[*i].name.clone()).filter(|n| outs.contains(n)).collect();
        let mut stmts = vec![];
        for (n, _) in &virtuals {
            let e = if supplied.is_empty() {
                Expr::lit(ch.range(0, 9) as u64)
            } else {
                let a = Expr::Var(supplied[ch.upto(supplied.len())].clone());
                match ch.upto(3) {
                    0 => a,
                    1 => Expr::bin(BinOp::Xor, a, Expr::lit(1)),
                    _ => Expr::bin(BinOp::Eq, a, Expr::lit(0)),
                }
            };
            stmts.push(Stmt::Declare(n.clone(), e));
        }
        spec.zx = if dch.chance(1, 4) { 0 } else { 48 };
        // rows: row r is answered by output-reading call number (1 + number of earlier
        // output-reading calls); only computed for the defaulting/overriding driver exactly
        let nrows = 1 + ch.upto(6);
        let mut read_calls = 1usize;
        let mut shadowing = false;
        // per item (in order): must it be a checked row? (every row without C; the third item
        // of a row with C)
        let mut item_checked: Vec<bool> = vec![];
        for id in 0..nrows {
            // a variable named like an output-capable signal: the reported output is still the
            // driver's, and a virtual signal still reads the device
            if !outs.is_empty() && ch.chance(1, 4) {
                let n = outs[ch.upto(outs.len())].clone();
                stmts.push(Stmt::Let(n, Expr::lit(41 + ch.upto(5) as u64)));
                shadowing = true;
            }
            let has_c = ch.chance(1, 5);
            // calls made before the checked call of this row (two mid-clock writes for a C row)
            let mid = if has_c { 2 } else { 0 };
            let call = read_calls + mid;
            let mut es = vec![];
            let mut c_used = false;
            for col in &cols {
                let e = match col.role {
                    ColRole::InputOnly => {
                        if has_c && !c_used {
                            c_used = true;
                            Entry::C(true)
                        } else {
                            Entry::Num(ch.range(0, 1) as u64, Radix::Dec)
                        }
                    }
                    _ => {
                        // expected column: which signal does it belong to?
                        let sig = sigs.iter().position(|s| s.expected_col().as_deref() == Some(col.name.as_str()));
                        let script = sig.and_then(|i| if spec.layout.contains(&i) { Some(spec.answer(call, i)) } else { None });
                        let agree = ch.chance(1, 2);
                        match (script, agree) {
                            (Some(OutVal::Val(v)), true) => {
                                if v >= 0 {
                                    Entry::Num(v as u64, Radix::Dec)
                                } else {
                                    Entry::Paren(Expr::konst(v))
                                }
                            }
                            (Some(OutVal::Z), true) => Entry::Z(true),
                            _ => match ch.weighted(&[3, 2, 2, 2]) {
                                0 => Entry::Num(ch.range(0, 5) as u64, Radix::Dec),
                                1 => Entry::X(true),
                                2 => Entry::Z(false),
                                _ => Entry::Paren(Expr::konst(*ch.choose(&BOUNDARY))),
                            },
                        }
                    }
                };
                es.push(e);
            }
            stmts.push(Stmt::Row(id, es));
            if has_c {
                item_checked.extend([false, false, true]);
            } else {
                item_checked.push(true);
            }
            read_calls = call + 1;
        }
        // in a quarter of the cases the driver fails on one call (a mid-clock write, or a checked
        // row's call); the caller goes on, and every later item is what its position says
        if dch.chance(1, 4) {
            spec.fail_at = Some(1 + dch.upto(item_checked.len()));
        }
        let prog = Program { header, stmts };
        let text = canonical(&prog).text;
        render_case(&mut out, &text, &sigs, Some(&spec));
        let all_outs: Vec<usize> = (0..sigs.len()).filter(|i| sigs[*i].is_output()).collect();
        let subset = spec.layout.len() < all_outs.len();
        let permuted = spec.layout.windows(2).any(|w| w[0] > w[1]);
        out.class_if(subset, "layout-subset");
        out.class_if(permuted, "layout-permuted");
        out.class_if(!virtuals.is_empty(), "virtual");
        out.class_if(
            spec.layout.iter().any(|i| !prog.header.contains(&sigs[*i].expected_col().unwrap())),
            "supplied-output-not-in-header",
        );
        out.class_if(sigs.iter().any(|s| matches!(s.kind, Kind::Bidir(_))), "bidirectional");
        out.class_if(shadowing, "variable-named-like-output");

        let Some(tc) = load_wellformed(&mut out, "c03", &text, &sigs) else {
            return out;
        };
        // In a third of the cases another iterator over the same test has run before, against a
        // driver that lists its outputs differently (same number of entries: rotated, or another
        // subset of that size). Nothing of it may carry over.
        if dch.chance(1, 3) && !spec.layout.is_empty() {
            let mut pre = spec.clone();
            let n = pre.layout.len();
            if n >= 2 && dch.chance(1, 2) {
                pre.layout.rotate_left(1 + dch.upto(n - 1));
            } else {
                let others: Vec<usize> = all_outs.iter().copied().filter(|i| !pre.layout.contains(i)).collect();
                if !others.is_empty() {
                    let at = dch.upto(n);
                    pre.layout[at] = others[dch.upto(others.len())];
                } else if n >= 2 {
                    pre.layout.reverse();
                }
            }
            pre.fail_at = None;
            if pre.layout != spec.layout {
                out.class("another-iterator-with-another-layout-ran-before");
                out.put("earlier-driver", pre.describe(&sigs));
                let _ = run_real(&tc, &sigs, &pre, &RunOpts { max_next: 1 + dch.upto(4), ..Default::default() });
            }
        }
        let real = run_real(&tc, &sigs, &spec, &RunOpts { max_next: 200, continue_after_error: true, continue_after_driver_error: true, ..Default::default() });
        if let Some(c) = &real.ctor {
            match c {
                RealItem::Panic(p) => out.fail(p.key(), format!("constructor panicked: {p}")),
                o => out.fail("c03:ctor-failed", o.short()),
            }
            return out;
        }
        let mut pass = false;
        let mut failv = false;
        let mut differ = false;
        let mut checked_rows = 0;
        let mut seen_error = false;
        let mut seen_driver_failure = false;
        for (k, item) in real.items.iter().enumerate() {
            let row = match item {
                RealItem::Row(r) => r,
                RealItem::Panic(p) => {
                    out.fail(p.key(), format!("next() #{k} panicked: {p}"));
                    return out;
                }
                RealItem::RuntimeErr(m) => {
                    // a virtual signal that reads a Z/X output makes the row an error (C14);
                    // the caller goes on: the rows that follow are checked like any other
                    out.class("virtual-zx-error");
                    let _ = m;
                    seen_error = true;
                    continue;
                }
                RealItem::DriverErr(_) if spec.fail_at == Some(k + 1) => {
                    seen_driver_failure = true;
                    continue;
                }
                o => {
                    out.fail("c03:unexpected-error", o.short());
                    return out;
                }
            };
            out.class_if(seen_driver_failure, "row-after-driver-failure");
            if row.outputs.is_empty() {
                // a mid-clock item - if its position says so
                if item_checked.get(k).copied().unwrap_or(false) {
                    out.fail(
                        "c03:checked-row-without-outputs",
                        format!("item {k} is a checked row by its position (a row without C, or the third item of a clock triple) but reports no outputs at all: nothing is compared, nothing can fail"),
                    );
                    return out;
                }
                continue;
            }
            checked_rows += 1;
            out.class_if(seen_error, "checked-row-after-error-item");
            // the call made for this row is the one logged during this next() (exactly one,
            // C02; if the crate does not keep to that, attribution cannot be checked here)
            if real.log_len_before[k + 1] == real.log_len_before[k] {
                // no call at all was made for this row, yet it reports outputs: whatever they are, they are not "the
                // value the driver returned in the call made for that row" (a reading kept from an earlier row)
                out.fail(
                    "c03:reported-outputs-without-call",
                    format!("row {k} reports outputs {:?} but no driver call was made for it", row.outputs.iter().map(|o| format!("{}={}", o.name, o.output)).collect::<Vec<_>>()),
                );
                return out;
            }
            if real.log_len_before[k + 1] != real.log_len_before[k] + 1 {
                out.discard("call-protocol-broken");
                return out;
            }
            let call = &real.log[real.log_len_before[k + 1] - 1];
            let vals: Vec<&OutVal> = call.answer.iter().map(|(_, v)| v).collect();
            if vals.len() >= 2 && vals.windows(2).any(|w| w[0] != w[1]) {
                differ = true;
            }
            // one entry per output-capable signal in list order, then virtuals
            let want_names: Vec<&str> = sigs.iter().filter(|s| s.is_output()).map(|s| s.name.as_str()).collect();
            for (j, n) in want_names.iter().enumerate() {
                let Some(o) = row.outputs.get(j) else {
                    out.fail("c03:entry-missing", format!("row {k}: no output entry for {n}"));
                    return out;
                };
                if o.name != *n {
                    out.fail("c03:entry-order", format!("row {k}: output entry {j} is {}, should be {n}", o.name));
                    return out;
                }
                let si = sigs.iter().position(|s| s.name == *n).unwrap();
                let want = call.answer.iter().find(|(i, _)| *i == si).map(|(_, v)| *v).unwrap_or(OutVal::X);
                if o.output != want {
                    out.fail(
                        "c03:misattributed-output",
                        format!(
                            "row {k}: output reported for {n} is {}, the driver returned {} for it in this call (layout {:?}, answer {:?})",
                            o.output,
                            want,
                            spec.layout.iter().map(|i| sigs[*i].name.as_str()).collect::<Vec<_>>(),
                            call.answer
                        ),
                    );
                    return out;
                }
            }
            let mut want_failing = vec![];
            for (j, o) in row.outputs.iter().enumerate() {
                let t = table_check(o.expected, o.output);
                if o.check != t {
                    out.fail(
                        "c03:wrong-verdict",
                        format!("row {k}: {}: expected {} output {} => check() = {}, should be {t}", o.name, o.expected, o.output, o.check),
                    );
                    return out;
                }
                if o.check_by_value != (t, t) {
                    out.fail(
                        "c03:wrong-verdict",
                        format!("row {k}: {}: expected {} output {}: OutputValue::check(expected) = {}, ExpectedValue::check(output) = {}, should be {t}", o.name, o.expected, o.output, o.check_by_value.0, o.check_by_value.1),
                    );
                    return out;
                }
                if o.is_checked != (o.expected != ExpVal::X) {
                    out.fail("c03:is-checked", format!("row {k}: {}: expected {} => is_checked() = {}", o.name, o.expected, o.is_checked));
                    return out;
                }
                if !t {
                    want_failing.push(j);
                    failv = true;
                } else if o.expected != ExpVal::X {
                    pass = true;
                }
                out.class_if(o.output == OutVal::Z, "output-Z");
                out.class_if(o.output == OutVal::X, "output-X");
                out.class_if(o.expected == ExpVal::Z, "expected-Z");
                out.class_if(o.expected == ExpVal::Z && o.output == OutVal::Z, "Z-matches-Z");
                out.class_if(matches!(o.expected, ExpVal::Val(_)) && o.output == OutVal::X, "X-output-vs-number");
            }
            let mut got = row.failing.clone();
            got.sort();
            if got != want_failing {
                out.fail(
                    "c03:failing-outputs",
                    format!("row {k}: failing_outputs() = entries {got:?}, should be {want_failing:?}"),
                );
                return out;
            }
        }
        out.class_if(pass, "pass");
        out.class_if(failv, "fail");
        out.nontrivial = (subset || permuted) && differ && pass && failv && checked_rows > 0;
        out
    }
}
