//! C18 - vars() reports the variables in scope at the row just yielded.

use crate::choice::Ch;
use crate::device::*;
use crate::engine::*;
use crate::gen::*;
use crate::props::common::*;
use crate::real::*;
use crate::ri;

pub struct C18;

fn vars_cfg() -> Cfg {
    let mut c = Cfg::flow();
    c.max_virtual = 2;
    c.allow_c = true;
    c.allow_input_x = true;
    c.max_x = 2;
    c.w_let = 9;
    c.w_loop = 6;
    c
}

impl Property for C18 {
    fn id(&self) -> &'static str {
        "C18"
    }
    fn rule(&self) -> &'static str {
        "profile `flow` with shadowing emphasis, 0-2 virtual signals (so the variable swap around virtual evaluation runs) and X/C rows (several items share one evaluation); the caller inspects vars() after every yielded row. Oracle: the reference interpreter's flattened environment at the evaluation of the row's source statement (innermost binding wins; loop frames gone after the loop; no output or virtual names unless a variable of that name is bound). Non-trivial: the environment at some row has a shadowed name, or is inspected after a loop has ended, or after an expansion item other than the first; distinct by source + signals + driver."
    }
    fn cases(&self, tier: Tier) -> u64 {
        match tier {
            Tier::Quick => 48000,
            Tier::Thorough => 48000 * 100,
        }
    }
    fn required_classes(&self) -> Vec<&'static str> {
        vec!["shadowed-env-at-row", "row-after-loop-end", "expansion-item>0", "declare", "var-named-like-output", "virtual-error-item", "vars-after-error-item"]
    }
    fn run(&self, s: &Streams) -> CaseOut {
        let mut out = CaseOut::new();
        let cfg = vars_cfg();
        let built = gen_case(&mut Ch::new(&s[0]), &cfg);
        let text = built_text(&built);
        let spec = gen_spec(
            &mut Ch::new(&s[2]),
            &built.sigs,
            &SpecCfg { palette: Palette::Small, zx: 0, free_layout: false, must_supply: built.must_supply(), both_driver_types: true },
        );
        let mut spec = spec;
        if Ch::new(&s[1]).chance(1, 3) {
            spec.zx = 20;
        }
        render_case(&mut out, &text, &built.sigs, Some(&spec));
        let f = feats(&built);
        feat_classes(&mut out, &f);
        let t = ri::run(&built.prog, &built.sigs, &spec, &ri::RiOpts { continue_after_virtual_error: true, ..Default::default() });
        fact_classes(&mut out, &t);
        if matches!(t.end, ri::RiEnd::StepCap) && t.items.is_empty() {
            out.discard("step-cap-before-first-row");
            return out;
        }
        // the run may contain error items caused by virtual signals (Z/X answers); the caller
        // goes on and keeps inspecting vars() at the rows that follow. Any other hazard ends
        // the reference run: the comparison then covers the prefix.
        let virt_errs = t.items.iter().filter(|i| matches!(i, ri::RiItem::Hazard { after_call: true, .. })).count();
        out.class_if(virt_errs > 0, "virtual-error-item");
        let Some(tc) = load_wellformed(&mut out, "c18", &text, &built.sigs) else {
            return out;
        };
        let real = run_real(
            &tc,
            &built.sigs,
            &spec,
            &RunOpts { max_next: next_budget(&t), fuel: fuel_for(t.facts.steps), want_vars: true, continue_after_error: true, ..Default::default() },
        );
        if let Some(RealItem::Panic(p)) = &real.ctor {
            out.fail(p.key(), format!("constructor panicked: {p}"));
            return out;
        }
        let mut later_expansion = false;
        let mut named_like_output = false;
        for (i, item) in t.items.iter().enumerate() {
            let ri::RiItem::Row(r) = item else { continue };
            if t.items[..i].iter().any(|x| matches!(x, ri::RiItem::Hazard { .. })) {
                out.class("vars-after-error-item");
            }
            match real.items.get(i) {
                // which rows run and what they hold is C01 / C04 / C05's business: once a row
                // differs from the reference, vars() has nothing to be compared with
                Some(RealItem::Row(rr)) => {
                    if row_diff(r, rr, Projection::INPUTS_EXPECTED).is_some() {
                        out.class("rows-diverged");
                        break;
                    }
                }
                Some(RealItem::Panic(p)) => {
                    out.fail(p.key(), format!("item {i} panicked: {p}"));
                    return out;
                }
                // row count / errors are C01's business: stop comparing here
                _ => break,
            }
            let Some(Some(vars)) = real.vars.get(i) else {
                break;
            };
            if r.expansion_index > 0 {
                later_expansion = true;
            }
            if r.env.keys().any(|k| built.sigs.iter().any(|s| s.name == *k)) {
                named_like_output = true;
            }
            if *vars != r.env {
                let extra: Vec<_> = vars.iter().filter(|(k, v)| r.env.get(*k) != Some(v)).collect();
                let missing: Vec<_> = r.env.iter().filter(|(k, v)| vars.get(*k) != Some(v)).collect();
                out.fail(
                    "c18:vars-mismatch",
                    format!(
                        "after item {i} ({}): vars() = {:?}\n should be {:?}\n wrong/extra: {:?} missing/different: {:?}",
                        fmt_ri_row(r),
                        vars,
                        r.env,
                        extra,
                        missing
                    ),
                );
                return out;
            }
        }
        out.class_if(later_expansion, "expansion-item>0");
        out.class_if(named_like_output, "var-named-like-output");
        out.nontrivial = (t.facts.shadowed_env || t.facts.row_after_loop_end || later_expansion) && !t.items.is_empty();
        out
    }
}
