//! C18 - vars() reports the variables in scope at the row just yielded.
//!
//! As built (DESIGN 8.4b): the oracle is *self-consistent* - it needs no reference values, so
//! it cannot be disturbed by changes that only alter what expressions evaluate to or which rows
//! run. Every row carries a tag (which source row is this?) and two probe inputs `(v)` for
//! variables v that are definitely in scope there; `vars()` must (1) contain every variable that
//! is definitely in scope at that source row, (2) contain no name that cannot be in scope there
//! (variables of loops that have ended, device outputs, virtual signals), and (3) report for
//! each probed variable exactly the value the crate itself just evaluated `(v)` to - the
//! innermost binding.

use std::collections::BTreeSet;

use crate::choice::Ch;
use crate::device::*;
use crate::engine::*;
use crate::gen::*;
use crate::model::*;
use crate::probe::*;
use crate::props::common::*;
use crate::real::*;

pub struct C18;

fn vars_cfg() -> Cfg {
    let mut c = Cfg::flow();
    c.max_virtual = 2;
    c.allow_c = true;
    c.allow_input_x = true;
    c.max_x = 2;
    c.w_let = 9;
    c.w_loop = 6;
    c
}

impl Property for C18 {
    fn id(&self) -> &'static str {
        "C18"
    }
    fn rule(&self) -> &'static str {
        "profile `flow` with shadowing emphasis, 0-2 virtual signals (so the variable swap around virtual evaluation runs), X/C rows (several items share one evaluation), Z/X device answers in a third of the cases (virtual signals then make rows error items and the caller goes on), a malformed driver answer (an entry dropped or repeated, two entries swapped) to one call in a quarter of the cases (that row is an error item, the caller goes on). Every row statement carries a tag and two 64-bit probe inputs `(v)` for variables v definitely in scope there. The caller inspects vars() after every yielded row. Oracle (self-consistent, no reference values): with D = variables definitely in scope at that source row and P = variables that can be in scope there (lets at the level of an enclosing frame, enclosing counters) by an independent static scope analysis of the generating program: D is a subset of keys(vars()) which is a subset of P (so variables of ended loops, device outputs and virtual signals are absent), and for each probed v, vars()[v] equals the value the crate itself evaluated `(v)` to in that row (the innermost binding). In a third of the cases `let zc = v0;` / `loop(zc, m)` / row / `end loop` / row (v0 in {0, 1, 3}, zc bound nowhere else) is planted at a top-level position: inside that loop vars()[zc] is the number of the pass (strictly increasing over the rows that are seen), and from the row after the loop on vars()[zc] = v0 (known values, so a shadowed binding that is written through is seen). In another third `let ovq = 11;` / `loop(ocq, 3)` / `while(0)` `let ovq = 5;` `end while` / row P / `let ovq = (ocq + 20);` / row Q / `end loop` / row R is planted: P shows ovq = 11 in the first pass and 19 + j in pass j >= 1 (what a pass binds in the loop's scope lives until the loop ends), Q shows 20 + j, R shows 11 again and no ocq. One case in eight holds nine loops inside one another with a row in the ninth and one behind its `end loop` (subject to the same D / P rule: the ninth counter and what the ninth loop bound are gone there). In a quarter of the cases the program starts with `loop(qc, 3)` / a row of literals only (no tag, no probe) / `end loop`, or `repeat(3)` over such a row: the first three items show the counter 0, 1, 2. Non-trivial: some inspected row has a shadowed name in scope, or follows an ended loop, or is an expansion item other than the first; distinct by source + signals + driver."
    }
    fn cases(&self, tier: Tier) -> u64 {
        match tier {
            Tier::Quick => 48000,
            Tier::Thorough => 48000 * 100,
        }
    }
    fn required_classes(&self) -> Vec<&'static str> {
        vec!["shadowed-name-in-scope", "row-after-loop-end", "expansion-item>0", "declare", "var-named-like-output", "vars-after-error-item", "vars-after-malformed-answer", "probe-checked", "row-in-loop", "planted-shadowing-loop-checked", "planted-shadowed-binding-checked", "planted-accumulator-checked", "head-loop-of-literals-checked"]
    }
    fn run(&self, s: &Streams) -> CaseOut {
        let mut out = CaseOut::new();
        let cfg = vars_cfg();
        let mut built = gen_case(&mut Ch::new(&s[0]), &cfg);
        // In a third of the cases a construct with known values is planted at a top-level
        // position: `let zc = v0;` / `loop(zc, m)` / row / `end loop` / row. `zc` is bound nowhere
        // else, so inside the loop it is the pass number and from the row after the loop on it
        // is v0 again, whatever else the program does.
        let mut lch = Ch::new(&s[1]);
        let mut planted: Option<(usize, usize, i64)> = None;
        let mut planted_m = 0i64;
        if lch.chance(1, 3) {
            let v0 = *lch.choose(&[0i64, 1, 3]);
            let m = 2 + lch.upto(2) as u64;
            let id_in = built.prog.row_count();
            let id_after = id_in + 1;
            let lit_row = |cols: &[Col]| -> Vec<Entry> {
                cols.iter().map(|c| if c.role == ColRole::ExpectedOnly { Entry::X(true) } else { Entry::Num(0, Radix::Dec) }).collect()
            };
            let at = lch.upto(built.prog.stmts.len() + 1);
            let new = vec![
                Stmt::Let("zc".into(), Expr::lit(v0 as u64)),
                Stmt::Loop("zc".into(), Expr::lit(m), vec![Stmt::Row(id_in, lit_row(&built.cols))]),
                Stmt::Row(id_after, lit_row(&built.cols)),
            ];
            for (k, st) in new.into_iter().enumerate() {
                built.prog.stmts.insert(at + k, st);
            }
            planted = Some((id_in, id_after, v0));
            planted_m = m as i64;
        }
        // In another third a second construct with known values (`ovq`, `ocq` are bound nowhere else):
        //   let ovq = 11;
        //   loop(ocq, 3)
        //     while(0) / let ovq = 5; / end while      (never runs; `while` opens no scope)
        //     row P        pass 0: ovq = 11 (the outer binding); pass j >= 1: ovq = 19 + j (bound by the pass before:
        //     let ovq = (ocq + 20);                     what a loop body binds lives until the LOOP ends)
        //     row Q        ovq = 20 + j
        //   end loop
        //   row R          ovq = 11 again, ocq gone
        let mut planted2: Option<(usize, usize, usize)> = None;
        if planted.is_none() && lch.chance(1, 2) {
            let (id_p, id_q, id_r) = (built.prog.row_count(), built.prog.row_count() + 1, built.prog.row_count() + 2);
            let lit_row = |cols: &[Col]| -> Vec<Entry> {
                cols.iter().map(|c| if c.role == ColRole::ExpectedOnly { Entry::X(true) } else { Entry::Num(0, Radix::Dec) }).collect()
            };
            let at = lch.upto(built.prog.stmts.len() + 1);
            let body = vec![
                Stmt::While(Expr::lit(0), vec![Stmt::Let("ovq".into(), Expr::lit(5))]),
                Stmt::Row(id_p, lit_row(&built.cols)),
                Stmt::Let("ovq".into(), Expr::Group(Box::new(Expr::bin(BinOp::Add, Expr::var("ocq"), Expr::lit(20))))),
                Stmt::Row(id_q, lit_row(&built.cols)),
            ];
            let new = vec![Stmt::Let("ovq".into(), Expr::lit(11)), Stmt::Loop("ocq".into(), Expr::lit(3), body), Stmt::Row(id_r, lit_row(&built.cols))];
            for (k, st) in new.into_iter().enumerate() {
                built.prog.stmts.insert(at + k, st);
            }
            planted2 = Some((id_p, id_q, id_r));
        }
        // One case in eight: nine loops inside one another (e0 .. e8, one pass each). The innermost binds `dxq` (bound to 7
        // outside) and holds a row; a second row follows behind its `end loop`, inside the eighth: there e8 and the inner
        // `dxq` are gone again, however deep the nest is.
        if lch.chance(1, 8) {
            let lit_row = |cols: &[Col]| -> Vec<Entry> {
                cols.iter().map(|c| if c.role == ColRole::ExpectedOnly { Entry::X(true) } else { Entry::Num(0, Radix::Dec) }).collect()
            };
            let (id_a, id_b) = (built.prog.row_count(), built.prog.row_count() + 1);
            let mut nest = vec![Stmt::Loop("e8".into(), Expr::lit(1), vec![Stmt::Let("dxq".into(), Expr::lit(5)), Stmt::Row(id_a, lit_row(&built.cols))]), Stmt::Row(id_b, lit_row(&built.cols))];
            for k in (0..8).rev() {
                nest = vec![Stmt::Loop(format!("e{k}"), Expr::lit(1), nest)];
            }
            let at = lch.upto(built.prog.stmts.len() + 1);
            built.prog.stmts.insert(at, Stmt::Let("dxq".into(), Expr::lit(7)));
            built.prog.stmts.insert(at + 1, nest.pop().unwrap());
            out.class("nine-loops-deep");
        }
        let scopes = instrument(&mut built, &mut lch, 2, ProbePref::Vars, &[]);
        // In a quarter of the cases the program starts with a loop whose body is one row of literals only - no tag, no
        // probe, nothing to evaluate: `loop(qc, 3)` / `0 0 .. X` / `end loop`, or `repeat(3) 0 0 .. X` (counter `n`).
        // The first three items of the run are its passes; the counter is 0, 1, 2 all the same.
        let mut head: Option<&'static str> = None;
        if lch.chance(1, 4) {
            let es: Vec<Entry> = built.cols.iter().map(|c| if c.role == ColRole::ExpectedOnly { Entry::X(true) } else { Entry::Num(0, Radix::Dec) }).collect();
            let id = built.prog.row_count();
            if lch.chance(1, 2) {
                built.prog.stmts.insert(0, Stmt::Loop("qc".into(), Expr::lit(3), vec![Stmt::Row(id, es)]));
                head = Some("qc");
            } else {
                built.prog.stmts.insert(0, Stmt::Repeat(Expr::lit(3), id, es));
                head = Some("n");
            }
            built.analysis = analyse(&built.prog);
        }
        let text = built_text(&built);
        let mut dch = Ch::new(&s[2]);
        let mut spec = gen_spec(
            &mut dch,
            &built.sigs,
            &SpecCfg { palette: Palette::Small, zx: 0, free_layout: false, must_supply: built.must_supply(), both_driver_types: true },
        );
        if dch.chance(1, 3) {
            spec.zx = 20;
        }
        // in a quarter of the cases the driver's answer to one call is malformed (an entry
        // dropped or repeated, two entries swapped): that row is an error item, the caller goes on
        if dch.chance(1, 4) {
            let p = dch.upto(8);
            spec.deviate_at = Some((1 + dch.upto(10), match dch.upto(3) {
                0 => Deviation::Drop(p),
                1 => Deviation::Duplicate(p),
                _ => Deviation::Swap(p, p + 1 + dch.upto(3)),
            }));
        }
        render_case(&mut out, &text, &built.sigs, Some(&spec));
        let f = feats(&built);
        feat_classes(&mut out, &f);
        let Some(tc) = load_wellformed(&mut out, "c18", &text, &built.sigs) else {
            return out;
        };
        let real = run_real(
            &tc,
            &built.sigs,
            &spec,
            &RunOpts { max_next: 300, want_vars: true, continue_after_error: true, ..Default::default() },
        );
        if let Some(RealItem::Panic(p)) = &real.ctor {
            out.fail(p.key(), format!("constructor panicked: {p}"));
            return out;
        }
        let signal_names: BTreeSet<String> =
            built.sigs.iter().map(|s| s.name.clone()).chain(built.analysis.virtuals.iter().cloned()).collect();
        let mut nontrivial = false;
        let mut prev_tag = None;
        let mut seen_error = false;
        let mut definite_trusted = true;
        let mut seen_malformed = false;
        let mut planted_passes = 0i64;
        let mut after_planted = false;
        for (i, item) in real.items.iter().enumerate() {
            let row = match item {
                RealItem::Row(r) => r,
                RealItem::Panic(p) => {
                    out.fail(p.key(), format!("item {i} (or vars() after it) panicked: {p}"));
                    return out;
                }
                _ => {
                    seen_error = true;
                    prev_tag = None;
                    // an error item for which no driver call was made is an expression error:
                    // an assignment (or a whole loop) may have been skipped, so "definitely in
                    // scope" can no longer be relied on. An error item WITH its driver call is
                    // a virtual signal's: the program state is intact.
                    let before = real.log_len_before.get(i).copied().unwrap_or(0);
                    let after = real.log_len_before.get(i + 1).copied().unwrap_or(before);
                    if after == before {
                        definite_trusted = false;
                    }
                    if let Some((c, _)) = &spec.deviate_at {
                        if before <= *c && *c < after {
                            seen_malformed = true;
                        }
                    }
                    continue;
                }
            };
            let Some(Some(vars)) = real.vars.get(i) else { continue };
            let Some(InVal::Val(tag)) = row.inputs.iter().find(|e| e.0 == "TAG").map(|e| e.1) else { continue };
            if let (Some(counter), true, 0) = (head, i < 3, tag) {
                out.class("head-loop-of-literals-checked");
                if vars.get(counter) != Some(&(i as i64)) {
                    out.fail(
                        "c18:counter-of-a-literal-row-loop",
                        format!("after item {i}, pass {i} of the `{}` over one row of literals the program starts with: vars()[{counter}] = {:?}, must be {i}", if counter == "n" { "repeat(3)" } else { "loop(qc, 3)" }, vars.get(counter)),
                    );
                    return out;
                }
                continue;
            }
            let Some(sc) = scopes.get(&((tag - 1) as usize)) else { continue };
            // the planted construct: known values
            if let Some((id_in, id_after, v0)) = planted {
                let rid = (tag - 1) as usize;
                if rid == id_in {
                    // (an expansion cannot occur: the planted rows hold literals only)
                    // (a pass whose row became an error item is not seen here: the counter values
                    // that are seen must be strictly increasing pass numbers)
                    out.class("planted-shadowing-loop-checked");
                    let ok = matches!(vars.get("zc"), Some(z) if *z >= planted_passes && *z < planted_m);
                    if !ok {
                        out.fail(
                            "c18:shadowing-counter-value",
                            format!("after item {i}: a pass of the planted `let zc = {v0}; loop(zc, {planted_m})`: vars()[zc] = {:?}, must be the number of the pass (at least {planted_passes} here, below {planted_m})", vars.get("zc")),
                        );
                        return out;
                    }
                    planted_passes = vars["zc"] + 1;
                } else if rid == id_after || after_planted {
                    after_planted = true;
                    out.class("planted-shadowed-binding-checked");
                    if vars.get("zc") != Some(&v0) {
                        out.fail(
                            "c18:shadowed-binding-not-restored",
                            format!("after item {i} (source row #{rid}, after the planted `let zc = {v0}; loop(zc, ..) .. end loop`): vars()[zc] = {:?}; the loop has ended, the binding it shadowed is visible again with its own value {v0}", vars.get("zc")),
                        );
                        return out;
                    }
                }
            }
            if let Some((id_p, id_q, id_r)) = planted2 {
                let rid = (tag - 1) as usize;
                let (ov, oc) = (vars.get("ovq").copied(), vars.get("ocq").copied());
                let want: Option<(Option<i64>, &str)> = if rid == id_p || rid == id_q {
                    match oc {
                        Some(j) if (0..3).contains(&j) => Some(if rid == id_q {
                            (Some(20 + j), "the `let ovq = (ocq + 20);` right above it has just run")
                        } else if j == 0 {
                            (Some(11), "first pass, the `let` of the body has not run yet (the one inside `while(0)` never does): the outer binding is in scope")
                        } else {
                            (Some(19 + j), "a later pass: what the pass before bound in the loop's scope is still there - it disappears when the loop ends, not when a pass ends")
                        }),
                        _ => {
                            out.fail("c18:planted-accumulator", format!("after item {i} (a row inside the planted `loop(ocq, 3)`): vars()[ocq] = {oc:?}, must be the number of the pass (0..2)"));
                            return out;
                        }
                    }
                } else if rid == id_r {
                    if oc.is_some() {
                        out.fail("c18:planted-accumulator", format!("after item {i} (the row after the planted `loop(ocq, 3)`): vars() still lists the counter ocq = {oc:?}"));
                        return out;
                    }
                    Some((Some(11), "the loop has ended: the binding `let ovq = 11;` that the loop's own `let ovq` shadowed is visible again, untouched"))
                } else {
                    None
                };
                if let Some((w, why)) = want {
                    out.class("planted-accumulator-checked");
                    if ov != w {
                        out.fail(
                            "c18:planted-accumulator",
                            format!("after item {i} (source row #{rid} of the planted `let ovq = 11; loop(ocq, 3) while(0) let ovq = 5; end while / row / let ovq = (ocq + 20); / row / end loop / row`, ocq = {oc:?}): vars()[ovq] = {ov:?}, must be {w:?} - {why}"),
                        );
                        return out;
                    }
                }
            }
            out.class_if(seen_error, "vars-after-error-item");
            out.class_if(seen_malformed, "vars-after-malformed-answer");
            out.class_if(sc.depth > 0, "row-in-loop");
            if prev_tag == Some(tag) {
                out.class("expansion-item>0");
                nontrivial = true;
            }
            prev_tag = Some(tag);
            if sc.after_loop {
                out.class("row-after-loop-end");
                nontrivial = true;
            }
            if sc.shadowed {
                out.class("shadowed-name-in-scope");
                nontrivial = true;
            }
            out.class_if(vars.keys().any(|k| signal_names.contains(k)), "var-named-like-output");
            // (1) everything definitely in scope is reported (unless an expression error made
            // "definitely" unreliable, see above)
            if let Some(missing) = sc.definite.iter().filter(|_| definite_trusted).find(|n| !vars.contains_key(*n)) {
                out.fail(
                    "c18:variable-missing",
                    format!("after item {i} (source row #{}): `{missing}` is in scope there but vars() = {vars:?}", tag - 1),
                );
                return out;
            }
            // (2) nothing that cannot be in scope is reported
            if let Some(extra) = vars.keys().find(|n| !sc.possible.contains(*n)) {
                out.fail(
                    "c18:name-not-in-scope-reported",
                    format!(
                        "after item {i} (source row #{}): vars() contains `{extra}`, which is not a variable in scope at that row (in scope can only be {:?}); vars() = {vars:?}",
                        tag - 1,
                        sc.possible
                    ),
                );
                return out;
            }
            // (3) probed variables: the value the crate itself evaluated (v) to
            for (k, p) in sc.probes.iter().enumerate() {
                let Some(v) = p else { continue };
                if !definite_trusted {
                    // (v) may have resolved to a device output of the same name
                    break;
                }
                let sent = row.inputs.iter().find(|e| e.0 == format!("PR{k}")).map(|e| e.1);
                let Some(InVal::Val(evaluated)) = sent else { continue };
                out.class("probe-checked");
                if vars.get(v) != Some(&evaluated) {
                    out.fail(
                        "c18:value-differs-from-evaluation",
                        format!(
                            "after item {i} (source row #{}): the row's entry ({v}) evaluated to {evaluated}, but vars()[{v}] = {:?} (the innermost binding must win)",
                            tag - 1,
                            vars.get(v)
                        ),
                    );
                    return out;
                }
            }
        }
        out.nontrivial = nontrivial;
        out
    }
}
