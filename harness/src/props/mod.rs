pub mod common;
pub mod c01;

use crate::engine::Property;

pub fn all() -> Vec<Box<dyn Property>> {
    vec![Box::new(c01::C01)]
}

pub fn by_id(id: &str) -> Option<Box<dyn Property>> {
    all().into_iter().find(|p| p.id().eq_ignore_ascii_case(id))
}
