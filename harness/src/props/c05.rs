//! C05 - clock (`C`) and don't-care (`X`) inputs expand into the documented row sequences.
//!
//! As built (DESIGN 8.4b): self-consistent oracle. Every row statement carries a tag; from the
//! generating program the harness knows, per source row, which input-bound columns hold `X`
//! (k of them), whether it has `C` columns, and which expected columns hold a literal `X`/`Z`.
//! One evaluation of the row must then yield exactly 2^k groups (assignment a = 0..2^k-1, bit j
//! of a = the j-th X column from the left), each one checked item or a 0-1-0 clock triple of
//! which only the third is checked; all other inputs and all expected values are the same in
//! every item of the evaluation. What the values *are* is not predicted, so nothing outside the
//! expansion can disturb this check.

use crate::choice::Ch;
use crate::device::*;
use crate::engine::*;
use crate::gen::*;
use crate::model::*;
use crate::probe::*;
use crate::props::common::*;
use crate::real::*;

pub struct C05;

pub fn expansion_cfg() -> Cfg {
    let mut c = Cfg::flow();
    c.n_in = (1, 5);
    c.n_out = (1, 3);
    c.n_bidir = (0, 2);
    c.interleave = true;
    c.widths = Widths::Mixed;
    c.permute_header = true;
    c.allow_c = true;
    c.allow_input_x = true;
    c.max_x = 5;
    c.max_depth = 3;
    c.max_block = 5;
    c.w_row = 14;
    c.w_let = 3;
    c.w_loop = 4;
    c.w_repeat = 3;
    c.w_while = 1;
    c.w_reset = 0;
    c.expr.max_depth = 2;
    c
}

impl Property for C05 {
    fn id(&self) -> &'static str {
        "C05"
    }
    fn rule(&self) -> &'static str {
        "profile `expansion`: programs whose rows hold 0-3 `C` and 0-5 `X` in input-bound columns at any position, X/Z in expected columns, literals, (expr) and bits() in between, at loop depth 0-3, multi-bit and bidirectional inputs, permuted headers that may leave signals out, one case in thirty with 61-67 extra one-bit inputs (columns 64 and up), both driver types; in a third of the cases the driver fails on one call and the caller goes on (the failed item keeps its position in the expansion, represented by the vector the driver received); every row statement carries a tag in a dedicated input column. Oracle (self-consistent): the items are cut into runs of equal tag; each run must consist of whole evaluations of g = 2^k x (3 if C else 1) items; within an evaluation item number p belongs to assignment a = p / phases, phase p % phases: the j-th X column from the left holds bit j of a, every C column holds 0,1,0 over the phases, only the last phase is checked (outputs non-empty) and is sent with the output-reading method, the other phases with the write-only method (as seen by an overriding driver), every other input and every expected value is the same in all items of the evaluation, expected columns holding a literal X / Z report X / Z, and the driver received exactly row.inputs. Non-trivial: an evaluation with >= 2 X, or >= 2 C, or both C and X was checked; distinct by source + signals + driver."
    }
    fn cases(&self, tier: Tier) -> u64 {
        match tier {
            Tier::Quick => 48000,
            Tier::Thorough => 48000 * 100,
        }
    }
    fn required_classes(&self) -> Vec<&'static str> {
        vec!["C+X-row", "clock-triple", "x-expansion", "row>=2X", "row>=2C", "overriding-driver", "defaulting-driver", "expansion-in-loop", "literal-expected-X", "literal-expected-Z", "repeat-expansion", "expansion-item-after-driver-failure", "input-without-column", "header>=65-columns"]
    }
    fn run(&self, s: &Streams) -> CaseOut {
        let mut out = CaseOut::new();
        let mut cfg = expansion_cfg();
        // the header may leave signals out: an input that has no column keeps its default, an
        // expected column is still never expanded
        cfg.omit_cols = true;
        // one case in thirty has 61-67 extra one-bit inputs: X and C also occur in columns 64 and up
        cfg.wide_inputs = Ch::new(&s[2]).chance(1, 30);
        out.class_if(cfg.wide_inputs, "header>=65-columns");
        let mut built = gen_case(&mut Ch::new(&s[0]), &cfg);
        let rows = instrument(&mut built, &mut Ch::new(&s[1]), 0, ProbePref::Vars, &[]);
        let text = built_text(&built);
        let mut dch = Ch::new(&s[2]);
        let mut spec = gen_spec(
            &mut dch,
            &built.sigs,
            &SpecCfg { palette: Palette::Small, zx: 0, free_layout: false, must_supply: built.must_supply(), both_driver_types: true },
        );
        // in a third of the cases the driver fails on one call; the caller goes on, and the rest
        // of the expansion that call belongs to must still follow
        if dch.chance(1, 3) {
            spec.fail_at = Some(1 + dch.upto(24));
        }
        render_case(&mut out, &text, &built.sigs, Some(&spec));
        let f = feats(&built);
        feat_classes(&mut out, &f);
        out.class_if(built.sigs.iter().any(|s| s.is_input() && s.name != "TAG" && !built.prog.header.contains(&s.name)), "input-without-column");
        out.class(if spec.override_write { "overriding-driver" } else { "defaulting-driver" });
        let Some(tc) = load_wellformed(&mut out, "c05", &text, &built.sigs) else {
            return out;
        };
        let cap = 300;
        let real = run_real(&tc, &built.sigs, &spec, &RunOpts { max_next: cap, continue_after_driver_error: true, ..Default::default() });
        if let Some(c) = &real.ctor {
            match c {
                RealItem::Panic(p) => out.fail(p.key(), format!("constructor panicked: {p}")),
                _ => out.discard("constructor-failed"),
            }
            return out;
        }
        // items as rows; anything else ends the part that can be looked at
        // The item whose call the driver failed is represented by the vector the driver received
        // (it still occupies its position in the expansion); its outputs are unknown.
        let mut owned: Vec<(RealRow, bool)> = vec![];
        let mut clean_end = real.ended;
        for (k, it) in real.items.iter().enumerate() {
            match it {
                RealItem::Row(r) => owned.push((r.clone(), false)),
                RealItem::Panic(p) => {
                    out.fail(p.key(), format!("next() panicked: {p}"));
                    return out;
                }
                RealItem::DriverErr(_) if real.log_len_before.get(k + 1).copied() == Some(real.log_len_before[k] + 1) && real.log[real.log_len_before[k]].failed => {
                    owned.push((RealRow { inputs: real.log[real.log_len_before[k]].inputs.clone(), outputs: vec![], failing: vec![], line: 0 }, true));
                    out.class("driver-failure-item");
                }
                _ => {
                    clean_end = false;
                    break;
                }
            }
        }
        let items: Vec<&RealRow> = owned.iter().map(|o| &o.0).collect();
        let failed: Vec<bool> = owned.iter().map(|o| o.1).collect();
        let tag_of = |r: &RealRow| -> Option<i64> {
            match r.inputs.iter().find(|e| e.0 == "TAG").map(|e| e.1) {
                Some(InVal::Val(t)) => Some(t),
                _ => None,
            }
        };
        let get = |r: &RealRow, name: &str| r.inputs.iter().find(|e| e.0 == name).map(|e| e.1);
        let mut nontrivial = false;
        let mut i = 0usize;
        while i < items.len() {
            let Some(tag) = tag_of(items[i]) else { break };
            let Some(info) = rows.get(&((tag - 1) as usize)) else { break };
            let g = info.group.max(1);
            let phases = if info.cs.is_empty() { 1 } else { 3 };
            // one evaluation = the next g items
            if i + g > items.len() {
                // cut by the cap on next() calls (or by an error): look at what is there, but do
                // not demand the rest - unless the run ended normally
                if clean_end {
                    out.fail(
                        "c05:incomplete-expansion",
                        format!("source row #{} expands to {g} items per evaluation; the run ended after {} of them", tag - 1, items.len() - i),
                    );
                    return out;
                }
            }
            let n_here = g.min(items.len() - i);
            let first = items[i];
            let eval_classes = (info.xs.len() >= 2, info.cs.len() >= 2, !info.xs.is_empty() && !info.cs.is_empty());
            for p in 0..n_here {
                let it = items[i + p];
                let what = format!("item {} = position {p} of an evaluation of source row #{} ({} X, {} C)", i + p, tag - 1, info.xs.len(), info.cs.len());
                if tag_of(it) != Some(tag) {
                    out.fail(
                        "c05:expansion-too-short",
                        format!("{what}: the evaluation must yield {g} items, but a different source row (tag {:?}) follows after {p}", tag_of(it)),
                    );
                    return out;
                }
                let a = p / phases;
                let ph = p % phases;
                for (j, x) in info.xs.iter().enumerate() {
                    let want = ((a >> j) & 1) as i64;
                    if get(it, x) != Some(InVal::Val(want)) {
                        out.fail(
                            "c05:wrong-x-assignment",
                            format!("{what}: X column {x} holds {:?}, must hold {want} (assignment {a}: leftmost X column varies fastest, 0 before 1)", get(it, x)),
                        );
                        return out;
                    }
                }
                let clk = [0i64, 1, 0][if phases == 3 { ph } else { 0 }];
                for c in &info.cs {
                    if get(it, c) != Some(InVal::Val(clk)) {
                        out.fail(
                            "c05:wrong-clock-phase",
                            format!("{what}: clock column {c} holds {:?} in phase {ph}, must hold {clk} (0, 1, 0)", get(it, c)),
                        );
                        return out;
                    }
                }
                let must_be_checked = ph == phases - 1;
                let is_failed = failed[i + p];
                out.class_if(failed[i..i + p].iter().any(|f| *f), "expansion-item-after-driver-failure");
                if !is_failed && must_be_checked == it.outputs.is_empty() {
                    out.fail(
                        "c05:wrong-phase-checked",
                        format!("{what}: phase {ph} of {phases} has {} output entries; only the last phase is read and compared", it.outputs.len()),
                    );
                    return out;
                }
                // every other input is held
                for (n, v, _) in &it.inputs {
                    if info.xs.contains(n) || info.cs.contains(n) {
                        continue;
                    }
                    if get(first, n) != Some(*v) {
                        out.fail(
                            "c05:input-not-held",
                            format!("{what}: input {n} = {v}, but {:?} in the first item of the same evaluation", get(first, n)),
                        );
                        return out;
                    }
                }
                // expected values: the row's, each time
                if must_be_checked && !is_failed {
                    if let Some(f0) = items[i..i + n_here].iter().find(|r| !r.outputs.is_empty()) {
                        for (o, o0) in it.outputs.iter().zip(&f0.outputs) {
                            if o.name != o0.name || o.expected != o0.expected {
                                out.fail(
                                    "c05:expected-differs-within-evaluation",
                                    format!("{what}: expected {}={} but {}={} in another checked item of the same evaluation", o.name, o.expected, o0.name, o0.expected),
                                );
                                return out;
                            }
                        }
                    }
                    for (name, want) in &info.literal_expected {
                        out.class(if *want == ExpVal::X { "literal-expected-X" } else { "literal-expected-Z" });
                        if let Some(o) = it.outputs.iter().find(|o| o.name == *name) {
                            if o.expected != *want {
                                out.fail(
                                    "c05:expected-xz-not-passed-through",
                                    format!("{what}: the expected column of {name} holds a literal {want}, the row reports {}", o.expected),
                                );
                                return out;
                            }
                        }
                    }
                }
                // the driver call made for this item
                let idx = i + p;
                let before = real.log_len_before[idx];
                let after = real.log_len_before[idx + 1];
                if after != before + 1 {
                    out.fail("c05:calls-per-item", format!("{what}: {} driver calls were made for it, a row is executed as exactly one device write", after - before));
                    return out;
                }
                let call = &real.log[before];
                let want_read = must_be_checked || !spec.override_write;
                if call.read != want_read {
                    out.fail(
                        "c05:wrong-call-kind",
                        format!("{what}: the driver saw {} call; outputs are read only after the last write of a clock triple", if call.read { "an output-reading" } else { "a write-only" }),
                    );
                    return out;
                }
                if call.inputs != it.inputs {
                    out.fail("c05:wrong-vector-sent", format!("{what}: the driver received {:?}, the row says {:?}", call.inputs, it.inputs));
                    return out;
                }
            }
            if n_here == g {
                out.class_if(phases == 3, "clock-triple");
                out.class_if(!info.xs.is_empty(), "x-expansion");
                out.class_if(eval_classes.0, "row>=2X");
                out.class_if(eval_classes.1, "row>=2C");
                out.class_if(info.depth > 0 && g > 1, "expansion-in-loop");
                out.class_if(info.is_repeat && g > 1, "repeat-expansion");
                if eval_classes.0 || eval_classes.1 || eval_classes.2 {
                    nontrivial = true;
                }
            }
            i += n_here;
        }
        out.nontrivial = nontrivial;
        out
    }
}
