//! C05 - clock (`C`) and don't-care (`X`) inputs expand into the documented row sequences.

use crate::choice::Ch;
use crate::device::*;
use crate::engine::*;
use crate::gen::*;
use crate::props::common::*;
use crate::real::*;
use crate::ri;

pub struct C05;

pub fn expansion_cfg() -> Cfg {
    let mut c = Cfg::flow();
    c.n_in = (1, 5);
    c.n_out = (1, 3);
    c.n_bidir = (0, 2);
    c.interleave = true;
    c.widths = Widths::Mixed;
    c.permute_header = true;
    c.allow_c = true;
    c.allow_input_x = true;
    c.max_x = 5;
    c.max_depth = 3;
    c.max_block = 5;
    c.w_row = 14;
    c.w_let = 3;
    c.w_loop = 4;
    c.w_repeat = 3;
    c.w_while = 1;
    c.w_reset = 0;
    c.expr.max_depth = 2;
    c
}

impl Property for C05 {
    fn id(&self) -> &'static str {
        "C05"
    }
    fn rule(&self) -> &'static str {
        "profile `expansion`: programs whose rows hold 0-3 `C` and 0-5 `X` in input-bound columns at any position, X/Z in expected columns, literals, (expr) and bits() in between, at loop depth 0-3, multi-bit and bidirectional inputs, permuted headers, both driver types. Oracle: reference expansion (2^k assignments, leftmost X fastest, 0 before 1; per assignment one checked write or a 0-1-0 clock triple with only the third checked; expected values of the source row; expected X/Z never expanded) against the row stream AND the driver call log (which method, which vector). Non-trivial: a row with >= 2 X, or >= 2 C, or both C and X was executed; distinct by source + signals + driver."
    }
    fn cases(&self, tier: Tier) -> u64 {
        match tier {
            Tier::Quick => 48000,
            Tier::Thorough => 48000 * 100,
        }
    }
    fn required_classes(&self) -> Vec<&'static str> {
        vec!["C+X-row", "clock-triple", "x-expansion", "row>=2X", "row>=2C", "overriding-driver", "defaulting-driver", "expansion-in-loop"]
    }
    fn run(&self, s: &Streams) -> CaseOut {
        let mut out = CaseOut::new();
        let cfg = expansion_cfg();
        let built = gen_case(&mut Ch::new(&s[0]), &cfg);
        let text = built_text(&built);
        let spec = gen_spec(
            &mut Ch::new(&s[2]),
            &built.sigs,
            &SpecCfg {
                palette: Palette::Small,
                zx: 0,
                free_layout: false,
                must_supply: built.must_supply(),
                both_driver_types: true,
            },
        );
        render_case(&mut out, &text, &built.sigs, Some(&spec));
        let f = feats(&built);
        feat_classes(&mut out, &f);
        out.class(if spec.override_write { "overriding-driver" } else { "defaulting-driver" });
        let t = ri::run(&built.prog, &built.sigs, &spec, &ri::RiOpts::default());
        fact_classes(&mut out, &t);
        if matches!(t.end, ri::RiEnd::StepCap) && t.items.is_empty() {
            out.discard("step-cap-before-first-row");
            return out;
        }
        if matches!(t.end, ri::RiEnd::Error) {
            out.discard("hazard-in-total-profile");
            return out;
        }
        // shape of executed source rows
        let mut two_x = false;
        let mut two_c = false;
        let mut both = false;
        let mut in_loop = false;
        {
            // group consecutive items by (row id, restart of expansion index)
            let mut i = 0;
            while i < t.items.len() {
                let ri::RiItem::Row(r0) = &t.items[i] else { break };
                let mut j = i + 1;
                while j < t.items.len() {
                    match &t.items[j] {
                        ri::RiItem::Row(r) if r.row_id == r0.row_id && r.expansion_index > 0 && r.expansion_index == j - i => j += 1,
                        _ => break,
                    }
                }
                let n = j - i;
                let unchecked = t.items[i..j].iter().filter(|x| matches!(x, ri::RiItem::Row(r) if !r.checked)).count();
                let has_c = unchecked > 0;
                let groups = if has_c { n / 3 } else { n };
                if groups >= 4 {
                    two_x = true;
                }
                if has_c && groups >= 2 {
                    both = true;
                }
                if (has_c || groups >= 2) && r0.depth > 0 {
                    in_loop = true;
                }
                i = j;
            }
            // >= 2 C columns: from the model
            b_two_c(&built, &mut two_c);
        }
        out.class_if(two_x, "row>=2X");
        out.class_if(two_c, "row>=2C");
        out.class_if(in_loop, "expansion-in-loop");
        out.nontrivial = two_x || (two_c && t.facts.clock_triples > 0) || both;

        let Some(tc) = load_wellformed(&mut out, "c05", &text, &built.sigs) else {
            return out;
        };
        let real = run_real(&tc, &built.sigs, &spec, &RunOpts { max_next: next_budget(&t), fuel: fuel_for(t.facts.steps), ..Default::default() });
        if let Some((k, m)) = trace_diff(&t, &real, Projection::INPUTS_EXPECTED) {
            let key = if k.starts_with("panic:") { k } else { format!("c05:{k}") };
            out.fail(key, m);
            return out;
        }
        // the call log: constructor + one call per item, right method, right vector
        for (i, item) in t.items.iter().enumerate() {
            let ri::RiItem::Row(r) = item else { continue };
            let Some(call) = real.log.get(i + 1) else {
                out.fail("c05:call-missing", format!("no driver call for item {i}"));
                return out;
            };
            let want_read = r.checked || !spec.override_write;
            if call.read != want_read {
                out.fail(
                    "c05:wrong-call-kind",
                    format!(
                        "item {i} ({}): driver saw {} call",
                        fmt_ri_row(r),
                        if call.read { "an output-reading" } else { "a write-only" }
                    ),
                );
                return out;
            }
            let sent: Vec<(String, crate::model::InVal)> = call.inputs.iter().map(|(n, v, _)| (n.clone(), *v)).collect();
            if sent != r.inputs {
                out.fail(
                    "c05:wrong-vector-sent",
                    format!("item {i}: driver received [{}], should be [{}]", fmt_inputs(&sent), fmt_inputs(&r.inputs)),
                );
                return out;
            }
        }
        out
    }
}

fn b_two_c(b: &Built, two_c: &mut bool) {
    b.prog.visit_stmts(&mut |s, _| {
        if let crate::model::Stmt::Row(_, es) | crate::model::Stmt::Repeat(_, _, es) = s {
            if es.iter().filter(|e| matches!(e, crate::model::Entry::C(_))).count() >= 2 {
                *two_c = true;
            }
        }
    });
}
