//! Helpers shared by the property implementations.

use digital_test_runner::TestCase;

use crate::device::DriverSpec;
use crate::engine::CaseOut;
use crate::gen::{Built, Feats};
use crate::model::*;
use crate::real::*;
use crate::device::Palette;
use crate::ri::*;

/// Load (parse + bind) a text that the generator built to be well-formed and fitting.
/// A failure to load is reported under `prefix:load`, a panic under its own signature.
pub fn load_wellformed(out: &mut CaseOut, prefix: &str, text: &str, sigs: &[Sig]) -> Option<TestCase> {
    // "a well-formed program is accepted and yields its rows" is C01's statement, "values are
    // bound to signals by header name" C06's; for every other property a test that does not
    // load only means that the property's observable cannot be produced: discard (counted)
    let owns_parse = prefix == "c01";
    let owns_bind = prefix == "c01" || prefix == "c06";
    match load(text, sigs) {
        Ok(tc) => {
            // One loaded test in four (chosen by its text) has been used before: another iterator, over a driver that lists
            // every output in reverse order and answers with its own values, ran two steps and was dropped. A TestCase's
            // behaviour is a function of text, signal list and the responses of the driver at hand - nothing an earlier
            // driver showed may stick to it, whatever property is being looked at.
            let h = text.bytes().fold(0xcbf29ce484222325u64, |h, b| (h ^ b as u64).wrapping_mul(0x100000001b3));
            if (h >> 7) % 4 == 0 {
                out.class("testcase-used-before-by-another-driver");
                let mut pre = DriverSpec::honest(sigs, h, Palette::Small);
                pre.layout.reverse();
                let _ = run_real(&tc, sigs, &pre, &RunOpts { max_next: 2, ..Default::default() });
            }
            Some(tc)
        }
        Err(LoadErr::Panic(p)) => {
            out.fail(p.key(), format!("loading a well-formed test panicked: {p}"));
            None
        }
        Err(LoadErr::Parse(m)) => {
            if owns_parse {
                out.fail(format!("{prefix}:parse-rejected"), format!("well-formed program rejected by the parser: {m}"));
            } else {
                out.discard("well-formed-program-rejected-by-parser");
            }
            None
        }
        Err(LoadErr::Bind(m)) => {
            if owns_bind {
                out.fail(format!("{prefix}:bind-rejected"), format!("fitting signal list rejected: {m}"));
            } else {
                out.discard("fitting-signal-list-rejected");
            }
            None
        }
    }
}

pub fn render_case(out: &mut CaseOut, text: &str, sigs: &[Sig], spec: Option<&DriverSpec>) {
    out.put("source", text.to_string());
    out.put("signals", describe_sigs(sigs));
    if let Some(s) = spec {
        out.put("driver", s.describe(sigs));
    }
}

pub fn feat_classes(out: &mut CaseOut, f: &Feats) {
    out.class_if(f.depth >= 2, "nesting>=2");
    out.class_if(f.depth >= 4, "nesting>=4");
    out.class_if(f.shadowing, "shadowing");
    out.class_if(f.lets_in_loops > 0, "let-in-loop-body");
    out.class_if(f.loop_in_while, "loop-in-while");
    out.class_if(f.while_in_loop, "while-in-loop");
    out.class_if(f.computed_bound, "computed-bound");
    out.class_if(f.nonpositive_literal_bound, "literal-bound<=0");
    out.class_if(f.device_read, "reads-device");
    out.class_if(f.repeats > 0, "repeat");
    out.class_if(f.bits_entries > 0, "bits()");
    out.class_if(f.c_rows > 0, "C-row");
    out.class_if(f.x_rows > 0, "X-row");
    out.class_if(f.cx_rows > 0, "C+X-row");
    out.class_if(f.declares > 0, "declare");
    out.class_if(f.declares >= 2, "declares>=2");
    out.class_if(f.randoms > 0, "random");
    out.class_if(f.resets > 0, "resetRandom");
    out.class_if(f.empty_bodies > 0, "empty-loop-body");
    out.class_if(f.empty_loop_random_bound > 0, "empty-loop-with-random-bound");
}

pub fn fact_classes(out: &mut CaseOut, t: &RiTrace) {
    out.class_if(t.facts.bound_le0 > 0, "bound<=0-reached");
    out.class_if(t.facts.max_depth_run >= 2, "ran-nesting>=2");
    out.class_if(t.facts.while_iters > 0, "while-iterated");
    out.class_if(t.facts.clock_triples > 0, "clock-triple");
    out.class_if(t.facts.x_expansions > 0, "x-expansion");
    out.class_if(t.facts.shadowed_env, "shadowed-env-at-row");
    out.class_if(t.facts.row_after_loop_end, "row-after-loop-end");
    out.class_if(matches!(t.end, RiEnd::RowCap), "row-cap");
    out.class_if(matches!(t.end, RiEnd::StepCap), "step-cap");
    out.class_if(t.items.len() >= 2, "rows>=2");
    out.class_if(t.items.is_empty(), "no-rows");
}

pub fn fmt_inputs(v: &[(String, InVal)]) -> String {
    v.iter().map(|(n, v)| format!("{n}={v}")).collect::<Vec<_>>().join(" ")
}

pub fn fmt_ri_row(r: &RiRow) -> String {
    format!(
        "row#{} {} in=[{}] out=[{}]",
        r.row_id,
        if r.checked { "checked" } else { "mid-clock" },
        fmt_inputs(&r.inputs),
        r.outputs
            .iter()
            .map(|o| format!("{}:{}/{}", o.name, o.output, o.expected))
            .collect::<Vec<_>>()
            .join(" ")
    )
}

pub fn fmt_ri_item(i: &RiItem) -> String {
    match i {
        RiItem::Row(r) => fmt_ri_row(r),
        RiItem::Hazard { hazard, after_call } => {
            format!("error item due ({hazard:?}, after driver call: {after_call})")
        }
        RiItem::DriverFail(f) => format!("driver failure {:#x}", f.id),
    }
}

/// What of a row a comparison looks at
#[derive(Clone, Copy, Debug)]
pub struct Projection {
    pub inputs: bool,
    pub expected: bool,
    pub outputs: bool,
    pub checkedness: bool,
    /// look at virtual-signal entries only
    pub virtual_only: bool,
}

impl Projection {
    pub const INPUTS_EXPECTED: Projection =
        Projection { inputs: true, expected: true, outputs: false, checkedness: true, virtual_only: false };
    pub const ALL: Projection =
        Projection { inputs: true, expected: true, outputs: true, checkedness: true, virtual_only: false };
    pub const VIRTUAL: Projection =
        Projection { inputs: false, expected: true, outputs: true, checkedness: true, virtual_only: true };
}

/// Compare one reference row with one real row under a projection.
/// Non-virtual outputs are compared positionally, virtual ones by name.
pub fn row_diff(ri: &RiRow, real: &RealRow, proj: Projection) -> Option<String> {
    if proj.inputs {
        if ri.inputs.len() != real.inputs.len() {
            return Some(format!(
                "input vector has {} entries, expected {}",
                real.inputs.len(),
                ri.inputs.len()
            ));
        }
        for ((n, v), (rn, rv, _)) in ri.inputs.iter().zip(&real.inputs) {
            if n != rn || v != rv {
                return Some(format!("input {rn}={rv}, expected {n}={v}"));
            }
        }
    }
    if proj.checkedness {
        if !ri.checked && !real.outputs.is_empty() {
            return Some("mid-clock row has outputs".into());
        }
        if ri.checked && real.outputs.len() != ri.outputs.len() {
            return Some(format!(
                "checked row has {} output entries, expected {}",
                real.outputs.len(),
                ri.outputs.len()
            ));
        }
    }
    if ri.checked && (proj.expected || proj.outputs) && real.outputs.len() == ri.outputs.len() {
        for (k, ro) in ri.outputs.iter().enumerate() {
            if proj.virtual_only && !ro.is_virtual {
                continue;
            }
            let real_o = if ro.is_virtual {
                real.outputs.iter().find(|o| o.name == ro.name)
            } else {
                real.outputs.get(k)
            };
            let Some(real_o) = real_o else {
                return Some(format!("no output entry for {}", ro.name));
            };
            if real_o.name != ro.name {
                return Some(format!("output entry {k} is for {}, expected {}", real_o.name, ro.name));
            }
            if ro.is_virtual && real_o.bits != 64 {
                return Some(format!("virtual signal {} is {} bits wide, should be 64", ro.name, real_o.bits));
            }
            // under the virtual-only projection an expected value that the program computes
            // is not looked at (what expressions evaluate to is other properties' business)
            if proj.expected && !(proj.virtual_only && !ro.expected_is_literal) && real_o.expected != ro.expected {
                return Some(format!(
                    "expected value of {} is {}, should be {}",
                    ro.name, real_o.expected, ro.expected
                ));
            }
            if proj.outputs && real_o.output != ro.output {
                return Some(format!(
                    "output value of {} is {}, should be {}",
                    ro.name, real_o.output, ro.output
                ));
            }
        }
    }
    None
}

/// Walk reference trace and real run in lock-step under a projection.
/// Returns (key suffix, message) of the first divergence.
pub fn trace_diff(t: &RiTrace, real: &RealRun, proj: Projection) -> Option<(String, String)> {
    if let Some(c) = &real.ctor {
        return Some(match c {
            RealItem::Panic(p) => (p.key(), format!("constructing the iterator panicked: {p}")),
            other => ("ctor-failed".into(), format!("constructing the iterator failed: {}", other.short())),
        });
    }
    for (i, ri_item) in t.items.iter().enumerate() {
        let Some(real_item) = real.items.get(i) else {
            return Some((
                "missing-rows".into(),
                format!(
                    "iteration ended after {} items; item {i} should have been: {}",
                    real.items.len(),
                    fmt_ri_item(ri_item)
                ),
            ));
        };
        if let RealItem::Panic(p) = real_item {
            if p.is_fuel() {
                return Some((
                    p.key(),
                    format!(
                        "next() #{i} ran away: it used up the step fuel (16 x the {} statement executions in which the reference interpreter finishes the whole program, + 20000) without returning; due: {}",
                        t.facts.steps,
                        fmt_ri_item(ri_item)
                    ),
                ));
            }
            return Some((p.key(), format!("next() #{i} panicked: {p}; due: {}", fmt_ri_item(ri_item))));
        }
        match (ri_item, real_item) {
            (RiItem::Row(r), RealItem::Row(rr)) => {
                if let Some(d) = row_diff(r, rr, proj) {
                    return Some((
                        "row-mismatch".into(),
                        format!(
                            "item {i}: {d}\n reference: {}\n real:      {}",
                            fmt_ri_row(r),
                            real_item.short()
                        ),
                    ));
                }
            }
            (RiItem::Row(r), other) => {
                return Some((
                    "error-instead-of-row".into(),
                    format!("item {i}: got {} where a row was due: {}", other.short(), fmt_ri_row(r)),
                ))
            }
            (RiItem::Hazard { .. }, RealItem::RuntimeErr(_)) => {}
            (RiItem::Hazard { hazard, .. }, other) => {
                return Some((
                    "row-instead-of-error".into(),
                    format!("item {i}: an error item was due ({hazard:?}) but got {}", other.short()),
                ))
            }
            (RiItem::DriverFail(f), RealItem::DriverErr(id)) if f.id == *id => {}
            (RiItem::DriverFail(f), other) => {
                return Some((
                    "driver-error-lost".into(),
                    format!("item {i}: driver error {:#x} was due but got {}", f.id, other.short()),
                ))
            }
        }
    }
    if matches!(t.end, RiEnd::Finished) {
        if let Some(RealItem::Panic(p)) = real.items.get(t.items.len()) {
            return Some((p.key(), format!("the next() after the last row did not return the end of iteration: {p}")));
        }
        if real.items.len() > t.items.len() {
            return Some((
                "extra-rows".into(),
                format!(
                    "the program yields {} rows, the run produced more; first extra item: {}",
                    t.items.len(),
                    real.items[t.items.len()].short()
                ),
            ));
        }
        if !real.ended {
            return Some(("no-end".into(), "iteration did not end where the program ends".into()));
        }
    }
    None
}

/// max number of next() calls for a real run that follows a reference trace
pub fn next_budget(t: &RiTrace) -> usize {
    t.items.len() + if matches!(t.end, RiEnd::Finished) { 1 } else { 0 }
}

pub fn built_text(b: &Built) -> String {
    crate::print::canonical(&b.prog).text
}

/// Second opinion for reference-based checks other than C02/C05: re-run the reference with the
/// device answers computed from the call indices the real driver actually saw, and compare
/// again. A difference that disappears was only caused by the crate making more or fewer driver
/// calls than the protocol prescribes - C02's business, not this property's.
pub fn still_differs_with_real_call_indices(
    prog: &crate::model::Program,
    sigs: &[Sig],
    spec: &DriverSpec,
    opts: &RiOpts,
    real: &RealRun,
    proj: Projection,
) -> bool {
    if real.log.len() == 1 + real.items.len() {
        // protocol intact: the second opinion would be identical
        return true;
    }
    let map: Vec<usize> = (0..real.items.len()).map(|i| real.log_len_before.get(i).copied().unwrap_or(0)).collect();
    let mut t = crate::ri::run(prog, sigs, spec, &RiOpts { call_of_item: Some(map), ..opts.clone() });
    excuse_malformed_answer(&mut t, real, spec);
    trace_diff(&t, real, proj).is_some()
}

/// The script's answer to one call is malformed (`deviate_at`): the item during which that call
/// was made may be an error item where the reference, which knows nothing of layouts, has a
/// row. Whether it must be one is C13's business; every other item is compared as usual.
/// Returns true if an item was excused.
pub fn excuse_malformed_answer(t: &mut RiTrace, real: &RealRun, spec: &DriverSpec) -> bool {
    let Some((c, _)) = &spec.deviate_at else { return false };
    for k in 0..real.items.len() {
        let (Some(b), Some(a)) = (real.log_len_before.get(k), real.log_len_before.get(k + 1)) else { break };
        if *b <= *c && *c < *a {
            if matches!(real.items[k], RealItem::RuntimeErr(_)) && matches!(t.items.get(k), Some(RiItem::Row(_))) {
                t.items[k] = RiItem::Hazard { hazard: crate::ri::Hazard::Unresolved("malformed driver answer".into()), after_call: true };
                return true;
            }
            break;
        }
    }
    false
}


// ---------------------------------------------------------------------------------------------
// several iterators over one test, stepped by a schedule

fn interleave_with<D: HasCore>(
    tc: &digital_test_runner::TestCase,
    mut drivers: Vec<D>,
    sched: &[usize],
    seed: u64,
    cap: usize,
) -> Result<Vec<(Vec<RealItem>, bool)>, PanicSig> {
    let n = drivers.len();
    digital_test_runner::verif_hooks::set_seed_override(Some(seed));
    digital_test_runner::verif_hooks::set_fuel(Some(DEFAULT_FUEL));
    digital_test_runner::verif_hooks::set_deadline(Some(std::time::Instant::now() + std::time::Duration::from_millis(2 * RUN_DEADLINE_MS)));
    let mut got: Vec<(Vec<RealItem>, bool)> = vec![(vec![], false); n];
    let res = (|| {
        let its = guarded(|| drivers.iter_mut().map(|d| tc.try_iter(d)).collect::<Vec<_>>())?;
        let mut live = vec![];
        for (i, it) in its.into_iter().enumerate() {
            match it {
                Ok(it) => live.push(Some(it)),
                Err(e) => {
                    got[i].0.push(iter_err(&e, |d| d.id));
                    got[i].1 = true;
                    live.push(None);
                }
            }
        }
        for step in sched {
            let i = *step % n;
            if got[i].1 || got[i].0.len() >= cap {
                continue;
            }
            let Some(it) = live[i].as_mut() else { continue };
            match guarded(|| it.next().map(|r| r.map(|row| own_row(&row)))) {
                Err(p) => {
                    got[i].0.push(RealItem::Panic(p));
                    got[i].1 = true;
                }
                Ok(None) => got[i].1 = true,
                Ok(Some(Ok(r))) => got[i].0.push(RealItem::Row(r)),
                Ok(Some(Err(e))) => {
                    got[i].0.push(iter_err(&e, |d| d.id));
                    got[i].1 = true;
                }
            }
        }
        drop(live);
        Ok(())
    })();
    let _ = digital_test_runner::verif_hooks::take_log();
    digital_test_runner::verif_hooks::set_seed_override(None);
    digital_test_runner::verif_hooks::set_fuel(None);
    digital_test_runner::verif_hooks::set_deadline(None);
    res.map(|()| got)
}

/// `n` iterators over one test, each with its own identically scripted driver and the same
/// seed, stepped in the order `sched` says (an iterator stops at its first error item). Per
/// iterator: the items it yielded and whether it is finished (None, error or panic seen).
pub fn run_interleaved(
    tc: &digital_test_runner::TestCase,
    sigs: &[Sig],
    spec: &DriverSpec,
    n: usize,
    sched: &[usize],
    seed: u64,
    cap: usize,
) -> Result<Vec<(Vec<RealItem>, bool)>, PanicSig> {
    if spec.override_write {
        interleave_with(tc, (0..n).map(|_| Overriding(Core::new(spec.clone(), sigs))).collect(), sched, seed, cap)
    } else {
        interleave_with(tc, (0..n).map(|_| Defaulting(Core::new(spec.clone(), sigs))).collect(), sched, seed, cap)
    }
}


// ---------------------------------------------------------------------------------------------
// a test embedded in a .dig document

/// A .dig document with one labelled pin per signal (a bidirectional signal is an In pin: the
/// loader infers the rest from the header) and one test holding `text`.
pub fn dig_xml(text: &str, sigs: &[Sig]) -> String {
    use crate::digdoc::*;
    let mut elements: Vec<Element> = sigs
        .iter()
        .map(|s| {
            let (kind, default) = match s.kind {
                Kind::Out => (PinKind::Out, None),
                Kind::In(InVal::Val(v)) | Kind::Bidir(InVal::Val(v)) => (PinKind::In, Some((Some(v), Some(false)))),
                Kind::In(InVal::Z) | Kind::Bidir(InVal::Z) => (PinKind::In, Some((Some(0), Some(true)))),
            };
            Element::Pin(Pin { kind, label: Some(s.name.clone()), bits: Some(s.bits), default })
        })
        .collect();
    elements.push(Element::Test(DigTest { label: Some("t".into()), source: text.to_string() }));
    DigDoc { elements }.render(&mut crate::choice::Ch::new(&[]))
}

/// parse the document and load its test; None if either fails (loading .dig documents is C16's
/// business), Err for a panic
pub fn load_via_dig(text: &str, sigs: &[Sig]) -> Result<Option<TestCase>, PanicSig> {
    let xml = dig_xml(text, sigs);
    guarded(|| digital_test_runner::dig::File::parse(&xml).ok().and_then(|f| f.load_test(0).ok()))
}
