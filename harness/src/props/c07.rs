//! C07 - values from the program are reduced to the width of the signal they drive.

use crate::choice::Ch;
use crate::device::*;
use crate::engine::*;
use crate::model::*;
use crate::print::*;
use crate::props::common::*;
use crate::real::*;

pub struct C07;

const SWEEP_MAGIC: u32 = u32::MAX;
/// value spread over 64 one-bit columns by `bits(64, ..)` in the wide batches (bits 62, 2, 0)
const WIDE_BITS: u64 = 0x4000_0000_0000_0005;
const BATCH: usize = 8;

/// the 40-value boundary pool for width w
fn pool(w: usize) -> Vec<i64> {
    let p = |k: usize| -> i64 {
        if k >= 64 {
            0
        } else {
            (1u64 << k) as i64
        }
    };
    let mut v = vec![
        0,
        1,
        -1,
        2,
        -2,
        i64::MIN,
        i64::MAX,
        i64::MIN + 1,
        i64::MAX - 1,
        p(w).wrapping_sub(1),
        p(w),
        p(w).wrapping_add(1),
        p(w).wrapping_neg(),
        p(w).wrapping_neg().wrapping_sub(1),
        p(w).wrapping_neg().wrapping_add(1),
        p(w - 1),
        p(w - 1).wrapping_sub(1),
        p(w - 1).wrapping_add(1),
        p(w - 1).wrapping_neg(),
        p(w + 1),
        p(w + 1).wrapping_sub(1),
        p(w + 1).wrapping_add(1),
        p(w).wrapping_mul(3),
        p(w).wrapping_mul(3).wrapping_add(5),
        0x5555_5555_5555_5555,
        0x2AAA_AAAA_AAAA_AAAAu64 as i64,
        -0x5555_5555_5555_5556,
        0x0123_4567_89AB_CDEF,
        -0x0123_4567_89AB_CDEF,
        0x7FFF_FFFF,
        0x8000_0000,
        0xFFFF_FFFF,
        0x1_0000_0000,
        -0x8000_0000,
        -0x8000_0001,
        255,
        256,
        -256,
        p(62),
        p(63),
    ];
    v.truncate(40);
    v
}

#[derive(Clone, Copy, PartialEq, Eq, Debug)]
enum Via {
    /// written in the row directly: literal if non-negative, else (~k)
    Direct,
    /// through a parenthesised arithmetic expression
    Arith,
    /// through a variable
    Let,
}

fn run_batch(out: &mut CaseOut, w: usize, vals: &[i64], via: &[Via], zx_row: bool, layout_stream: &[u32], fail_at: Option<usize>, with_bits: bool, wide: bool) {
    let w2 = if w > 32 { w - 29 } else { w + 29 };
    let sigs = vec![
        Sig { name: "I".into(), bits: w, kind: Kind::In(InVal::Val(0)) },
        Sig { name: "O".into(), bits: w, kind: Kind::Out },
        Sig { name: "B".into(), bits: w, kind: Kind::Bidir(InVal::Z) },
        // a column shared by two signals of different widths: S_out drives the input S_out
        // (w2 bits) and is the expected value of the bidirectional S (w bits)
        Sig { name: "S".into(), bits: w, kind: Kind::Bidir(InVal::Val(0)) },
        Sig { name: "S_out".into(), bits: w2, kind: Kind::In(InVal::Val(0)) },
    ];
    // header: input column, expected column, bidirectional in + out, virtual column, shared column
    let mut header: Vec<String> = ["I", "O", "B", "B_out", "V", "S_out"].iter().map(|s| s.to_string()).collect();
    let mut sigs = sigs;
    if wide {
        // 64 more one-bit outputs behind, every one expected `X` in every row: columns 64 and
        // up exist, and a don't-care there is passed through like anywhere else
        out.class("header>=65-columns");
        for k in 0..64 {
            sigs.push(Sig { name: format!("F{k}"), bits: 1, kind: Kind::Out });
            header.push(format!("F{k}"));
        }
    }
    if with_bits {
        // two one-bit inputs in front, fed by one `bits(2, 2)` entry: the entries that follow sit
        // one place further left in the row than their columns do in the header
        out.class("bits-entry-before-the-values");
        // (K1 is 3 bits wide and the value has more than two bits: each entry of a bits group is
        // one bit of the value, whatever the width of the signal it lands on)
        for (k, (n, b)) in [("K1", 3usize), ("K0", 1)].iter().enumerate() {
            sigs.insert(k, Sig { name: n.to_string(), bits: *b, kind: Kind::In(InVal::Val(0)) });
            header.insert(k, n.to_string());
        }
    }
    let mut stmts = vec![Stmt::Declare("V".into(), Expr::var("O"))];
    let mut row_vals: Vec<Option<i64>> = vec![];
    let mut id = 0;
    for (k, v) in vals.iter().enumerate() {
        let entry = |v: i64| -> Entry {
            if v >= 0 {
                Entry::Num(v as u64, Radix::Dec)
            } else {
                Entry::Paren(Expr::konst(v))
            }
        };
        let es: Vec<Entry> = match via[k % via.len()] {
            Via::Direct => (0..6).map(|_| entry(*v)).collect(),
            Via::Arith => {
                // (v - 1) + 1 with wrapping arithmetic gives v back
                let e = Expr::bin(BinOp::Add, Expr::bin(BinOp::Sub, Expr::konst(*v), Expr::lit(1)), Expr::lit(1));
                (0..6).map(|_| Entry::Paren(e.clone())).collect()
            }
            Via::Let => {
                stmts.push(Stmt::Let("v".into(), Expr::konst(*v)));
                (0..6).map(|_| Entry::Paren(Expr::var("v"))).collect()
            }
        };
        let mut es = es;
        if wide {
            if k % 2 == 0 {
                es.extend((0..64).map(|k| Entry::X(k % 2 == 0)));
            } else {
                // one bits(64, ..) entry over the 64 columns: column F_j expects bit 63-j
                es.push(Entry::Bits(64, Expr::lit(WIDE_BITS)));
            }
        }
        if with_bits {
            es.insert(0, Entry::Bits(2, Expr::lit(14)));
        }
        stmts.push(Stmt::Row(id, es));
        id += 1;
        row_vals.push(Some(*v));
    }
    if zx_row {
        let mut es = vec![Entry::Z(true), Entry::X(false), Entry::Z(false), Entry::Z(true), Entry::X(true), Entry::Z(true)];
        if wide {
            es.extend((0..64).map(|k| Entry::X(k % 2 == 0)));
        }
        if with_bits {
            es.insert(0, Entry::Bits(2, Expr::lit(14)));
        }
        stmts.push(Stmt::Row(id, es));
        row_vals.push(None);
    }
    let prog = Program { header, stmts };
    let text = render(&program_lines(&prog), &mut Ch::new(layout_stream), LayoutOpts::CANON).text;
    let mut spec = DriverSpec::honest(&sigs, 7, Palette::Small);
    // the driver may fail on one row's call; the caller goes on
    spec.fail_at = fail_at;
    render_case(out, &text, &sigs, Some(&spec));
    let Some(tc) = load_wellformed(out, "c07", &text, &sigs) else {
        return;
    };
    let real = run_real(&tc, &sigs, &spec, &RunOpts { max_next: row_vals.len() + 1, continue_after_driver_error: true, ..Default::default() });
    if let Some(c) = &real.ctor {
        match c {
            RealItem::Panic(p) => out.fail(p.key(), format!("constructor panicked: {p}")),
            o => out.fail("c07:ctor-failed", o.short()),
        }
        return;
    }
    let mut after_failure = false;
    for (k, rv) in row_vals.iter().enumerate() {
        let item = real.items.get(k);
        let failed_row;
        let row = match item {
            Some(RealItem::Row(r)) => {
                out.class_if(after_failure, "row-after-driver-failure");
                r
            }
            // the row whose call the driver failed: what the driver received is still judged
            Some(RealItem::DriverErr(_)) if fail_at == Some(k + 1) && real.log.len() > k + 1 => {
                after_failure = true;
                failed_row = RealRow { inputs: real.log[k + 1].inputs.clone(), outputs: vec![], failing: vec![], line: 0 };
                &failed_row
            }
            Some(RealItem::Panic(p)) => {
                out.fail(p.key(), format!("width {w}, value {rv:?}: next() panicked: {p}"));
                return;
            }
            other => {
                out.fail("c07:no-row", format!("width {w}, value {rv:?}: expected a row, got {other:?}"));
                return;
            }
        };
        // as received by the driver
        let sent = &real.log[k + 1].inputs;
        let get_in = |v: &Vec<(String, InVal, bool)>, n: &str| v.iter().find(|e| e.0 == n).map(|e| e.1);
        let get_exp = |n: &str| row.outputs.iter().find(|o| o.name == n).map(|o| o.expected);
        if wide && !row.outputs.is_empty() && rv.is_some() && k % 2 == 1 {
            for j in 0..64usize {
                let want = ((WIDE_BITS >> (63 - j)) & 1) as i64;
                if get_exp(&format!("F{j}")) != Some(ExpVal::Val(want)) {
                    out.fail(
                        "c07:bits-entry",
                        format!("width {w}: bits(64, {WIDE_BITS:#x}) over F0..F63: F{j} expects {:?}, should be bit {} of the value = {want}", get_exp(&format!("F{j}")), 63 - j),
                    );
                    return;
                }
            }
        } else if wide && !row.outputs.is_empty() {
            if let Some(bad) = (0..64).map(|k| format!("F{k}")).find(|n| get_exp(n) != Some(ExpVal::X)) {
                out.fail("c07:zx-not-passed-through", format!("width {w}: the expected column {bad} (one of 64 beyond the first columns) holds X; the row reports {:?}", get_exp(&bad)));
                return;
            }
        }
        if with_bits && (get_in(sent, "K1") != Some(InVal::Val(1)) || get_in(sent, "K0") != Some(InVal::Val(0))) {
            out.fail("c07:bits-entry", format!("bits(2, 14) must drive K1 = 1, K0 = 0 (bits 1 and 0 of 14, one bit per entry); the driver received {:?} {:?}", get_in(sent, "K1"), get_in(sent, "K0")));
            return;
        }
        match rv {
            Some(v) => {
                let want = reduce(*v, w);
                for n in ["I", "B"] {
                    for (what, got) in [("driver received", get_in(sent, n)), ("row.inputs", get_in(&row.inputs, n))] {
                        if got != Some(InVal::Val(want)) {
                            out.fail(
                                "c07:input-not-reduced",
                                format!("width {w}: program value {v} for input {n}: {what} {got:?}, should be {want}"),
                            );
                            return;
                        }
                    }
                }
                if row.outputs.is_empty() && fail_at == Some(k + 1) {
                    continue;
                }
                for n in ["O", "B"] {
                    if get_exp(n) != Some(ExpVal::Val(want)) {
                        out.fail(
                            "c07:expected-not-reduced",
                            format!("width {w}: program value {v}: expected value of {n} is {:?}, should be {want}", get_exp(n)),
                        );
                        return;
                    }
                }
                // the shared column: each signal reduces to its own width
                for (what, got) in [("driver received", get_in(sent, "S_out")), ("row.inputs", get_in(&row.inputs, "S_out"))] {
                    if got != Some(InVal::Val(reduce(*v, w2))) {
                        out.fail(
                            "c07:input-not-reduced",
                            format!("shared column S_out: program value {v} for the {w2}-bit input S_out: {what} {got:?}, should be {}", reduce(*v, w2)),
                        );
                        return;
                    }
                }
                if get_exp("S") != Some(ExpVal::Val(want)) {
                    out.fail(
                        "c07:expected-not-reduced",
                        format!("shared column S_out: program value {v}: expected value of the {w}-bit S is {:?}, should be {want}", get_exp("S")),
                    );
                    return;
                }
                if get_exp("V") != Some(ExpVal::Val(*v)) {
                    out.fail(
                        "c07:virtual-not-64-bit",
                        format!("program value {v}: expected value of virtual V is {:?}, should be unchanged", get_exp("V")),
                    );
                    return;
                }
            }
            None if row.outputs.is_empty() && fail_at == Some(k + 1) => {}
            None => {
                let ok = get_in(sent, "I") == Some(InVal::Z)
                    && get_in(sent, "B") == Some(InVal::Z)
                    && get_exp("O") == Some(ExpVal::X)
                    && get_exp("B") == Some(ExpVal::Z)
                    && get_exp("V") == Some(ExpVal::X)
                    && get_in(sent, "S_out") == Some(InVal::Z)
                    && get_exp("S") == Some(ExpVal::Z);
                if !ok {
                    out.fail("c07:zx-not-passed-through", format!("width {w}: row `Z x z Z X` gave {}", item.unwrap().short()));
                    return;
                }
            }
        }
    }
    if !real.ended {
        out.fail("c07:extra-rows", "more rows than the program has");
    }
}

/// X and C entries on inputs wider than one bit: the values they stand for are 0 and 1, at any
/// width (`X X 0 O` - four items -, `0 0 C O` - a 0, 1, 0 triple -, `X 0 C O`).
fn run_xc(out: &mut CaseOut, w: usize, w2: usize) {
    out.class("X-and-C-on-wide-inputs");
    let sigs = vec![
        Sig { name: "XA".into(), bits: w, kind: Kind::In(InVal::Val(0)) },
        Sig { name: "XB".into(), bits: w2, kind: Kind::In(InVal::Val(0)) },
        Sig { name: "CK".into(), bits: w, kind: Kind::Bidir(InVal::Val(0)) },
        Sig { name: "O".into(), bits: 1, kind: Kind::Out },
    ];
    // (for every third width the expected column stands first: an X there is left of the don't-care inputs and passes
    // through unchanged all the same)
    let o_first = w % 3 == 0;
    let mut header: Vec<String> = ["XA", "XB", "CK", "O"].iter().map(|s| s.to_string()).collect();
    let n0 = || Entry::Num(0, Radix::Dec);
    let mut stmts = vec![
        Stmt::Row(0, vec![Entry::X(true), Entry::X(false), n0(), Entry::X(true)]),
        Stmt::Row(1, vec![n0(), n0(), Entry::C(true), Entry::X(true)]),
        Stmt::Row(2, vec![Entry::X(true), n0(), Entry::C(false), Entry::X(true)]),
        // two clocks that are not neighbours: the input between them keeps its value
        Stmt::Row(3, vec![Entry::C(true), Entry::Num(1, Radix::Dec), Entry::C(true), Entry::X(true)]),
    ];
    if o_first {
        header.rotate_right(1);
        for st in stmts.iter_mut() {
            if let Stmt::Row(_, es) = st {
                es.rotate_right(1);
            }
        }
        out.class("expected-X-left-of-dont-care-inputs");
    }
    let text = canonical(&Program { header, stmts }).text;
    let spec = DriverSpec::honest(&sigs, 7, Palette::Small);
    render_case(out, &text, &sigs, Some(&spec));
    let Some(tc) = load_wellformed(out, "c07", &text, &sigs) else {
        return;
    };
    let real = run_real(&tc, &sigs, &spec, &RunOpts { max_next: 20, ..Default::default() });
    // (XA, XB, CK) per item: X X 0 -> 4 items; 0 0 C -> 3; X 0 C -> 2 x 3
    let want: Vec<(i64, i64, i64)> = vec![
        (0, 0, 0), (1, 0, 0), (0, 1, 0), (1, 1, 0),
        (0, 0, 0), (0, 0, 1), (0, 0, 0),
        (0, 0, 0), (0, 0, 1), (0, 0, 0), (1, 0, 0), (1, 0, 1), (1, 0, 0),
        (0, 1, 0), (1, 1, 1), (0, 1, 0),
    ];
    for (k, (a, b, c)) in want.iter().enumerate() {
        let Some(RealItem::Row(row_k)) = real.items.get(k) else {
            if let Some(RealItem::Panic(p)) = real.items.get(k) {
                out.fail(p.key(), format!("item {k} panicked: {p}"));
            } else {
                out.fail("c07:no-row", format!("item {k}: expected a row, got {:?}", real.items.get(k).map(|i| i.short())));
            }
            return;
        };
        if let Some(o) = row_k.outputs.iter().find(|o| o.name == "O") {
            if o.expected != ExpVal::X {
                out.fail("c07:zx-not-passed-through", format!("item {k}: the expected column O holds X in every row; the row reports the expected value {}", o.expected));
                return;
            }
        }
        let sent = &real.log[k + 1].inputs;
        let get = |n: &str| sent.iter().find(|e| e.0 == n).map(|e| e.1);
        if get("XA") != Some(InVal::Val(*a)) || get("XB") != Some(InVal::Val(*b)) || get("CK") != Some(InVal::Val(*c)) {
            out.fail(
                "c07:x-or-c-not-0-or-1",
                format!("item {k} of `X x 0 X` / `0 0 C X` / `X 0 c X` on inputs {w}, {w2} and {w} bits wide: the driver received XA={:?} XB={:?} CK={:?}, should be {a} {b} {c} (a don't-care stands for 0 and 1, a clock for 0, 1, 0, whatever the width)", get("XA"), get("XB"), get("CK")),
            );
            return;
        }
    }
    if real.items.len() != want.len() || !real.ended {
        out.fail("c07:extra-rows", format!("{} items, should be {}", real.items.len(), want.len()));
        return;
    }
    // a test whose inputs are all 64 bits wide (or that has none): the expected value of a
    // narrower output is reduced all the same
    for with_input in [true, false] {
        let wo = w.min(63);
        let mut sigs2 = vec![Sig { name: "O".into(), bits: wo, kind: Kind::Out }];
        let mut header2 = vec!["O".to_string()];
        let v: i64 = -3;
        let mut es = vec![Entry::Paren(Expr::konst(v))];
        if with_input {
            sigs2.insert(0, Sig { name: "I".into(), bits: 64, kind: Kind::In(InVal::Val(0)) });
            header2.insert(0, "I".into());
            es.insert(0, Entry::Paren(Expr::konst(v)));
        }
        let text2 = canonical(&Program { header: header2, stmts: vec![Stmt::Row(0, es)] }).text;
        let spec2 = DriverSpec::honest(&sigs2, 7, Palette::Small);
        let Ok(tc2) = load(&text2, &sigs2) else { continue };
        let real2 = run_real(&tc2, &sigs2, &spec2, &RunOpts { max_next: 3, ..Default::default() });
        if let Some(RealItem::Row(r)) = real2.items.first() {
            let got = r.outputs.iter().find(|o| o.name == "O").map(|o| o.expected);
            if got != Some(ExpVal::Val(reduce(v, wo))) {
                out.fail(
                    "c07:expected-not-reduced",
                    format!("a test with {}: program value {v} for the {wo}-bit output O: expected value {got:?}, should be {}", if with_input { "one 64-bit input" } else { "no input at all" }, reduce(v, wo)),
                );
                return;
            }
        }
    }
}

/// A row that cannot be evaluated (its second entry divides by zero) is an error item; the caller goes on, and the
/// row after it is reduced and bound like any other: nothing of the half-evaluated row is left over.
fn run_after_error(out: &mut CaseOut, w: usize, w2: usize) {
    out.class("row-after-a-row-that-cannot-be-evaluated");
    let sigs = vec![
        Sig { name: "I".into(), bits: w, kind: Kind::In(InVal::Val(0)) },
        Sig { name: "J".into(), bits: w2, kind: Kind::In(InVal::Val(0)) },
        Sig { name: "O".into(), bits: w, kind: Kind::Out },
    ];
    let header: Vec<String> = ["I", "J", "O"].iter().map(|s| s.to_string()).collect();
    let (v1, v4, v5, v6): (i64, i64, i64, i64) = (1, -3, 300, -2);
    let k = |v: i64| Entry::Paren(Expr::konst(v));
    let stmts = vec![
        Stmt::Row(0, vec![k(v1), Entry::Paren(Expr::bin(BinOp::Div, Expr::lit(7), Expr::lit(0))), k(v6)]),
        Stmt::Row(1, vec![k(v4), k(v5), k(v6)]),
    ];
    let text = canonical(&Program { header, stmts }).text;
    let spec = DriverSpec::honest(&sigs, 7, Palette::Small);
    let Ok(tc) = load(&text, &sigs) else { return };
    let real = run_real(&tc, &sigs, &spec, &RunOpts { max_next: 4, continue_after_error: true, ..Default::default() });
    let (Some(RealItem::RuntimeErr(_)), Some(RealItem::Row(r))) = (real.items.first(), real.items.get(1)) else {
        if let Some(RealItem::Panic(p)) = real.items.iter().find(|i| matches!(i, RealItem::Panic(_))) {
            out.fail(p.key(), format!("panicked: {p}"));
        }
        return;
    };
    if real.log.len() != 2 {
        return;
    }
    let sent = &real.log[1].inputs;
    let get = |n: &str| sent.iter().find(|e| e.0 == n).map(|e| e.1);
    let exp = r.outputs.iter().find(|o| o.name == "O").map(|o| o.expected);
    if get("I") != Some(InVal::Val(reduce(v4, w))) || get("J") != Some(InVal::Val(reduce(v5, w2))) {
        out.fail(
            "c07:input-not-reduced",
            format!("`({v1}) (7/0) ({v6})` (an error item, the caller goes on) then `({v4}) ({v5}) ({v6})` on inputs I ({w} bits), J ({w2} bits): the driver received I={:?} J={:?}, should be {} and {}", get("I"), get("J"), reduce(v4, w), reduce(v5, w2)),
        );
        return;
    }
    if exp != Some(ExpVal::Val(reduce(v6, w))) {
        out.fail("c07:expected-not-reduced", format!("the row after a row that could not be evaluated: expected value of the {w}-bit O is {exp:?}, should be {}", reduce(v6, w)));
    }
}

impl Property for C07 {
    fn id(&self) -> &'static str {
        "C07"
    }
    fn rule(&self) -> &'static str {
        "profile `width`: (a) exhaustive sweep of every width 1..=64 x a 40-value boundary pool (0, +-1, MIN, MAX, 2^w-1, 2^w, 2^w+1, -2^w, 2^(w-1), ...) delivered directly / through arithmetic / through let, 8 values per program, on an input column, an output's expected column, a bidirectional signal's input and `_out` column and a virtual signal's column, plus a `Z x z Z X` row, in every second batch behind a `bits(2, 14)` entry feeding two extra inputs (3 and 1 bits wide: each gets exactly one bit of the value) (row entries and header columns then no longer line up one to one), in every fifth batch with 64 more one-bit outputs behind that are expected `X` in every row, or filled bit by bit by one `bits(64, 0x4000000000000005)` entry (columns 64 and up); (b) random (width, 64-bit value) pairs, one case in ten a fixed program with X and C entries on inputs wider than one bit (they stand for 0 / 1 and 0, 1, 0 at any width; two clocks with an input between them; and two one-row tests whose only input is 64 bits wide, or that have none, with a narrower output), values returning to the one two rows earlier (v, w, v), in a third of the programs the driver fails on one row's call and the caller goes on. Oracle: value & (2^w-1) in u64 (w=64 unchanged) against the input as received by the driver, row.inputs and the expected values; virtual column keeps 64 bits. Non-trivial: w >= 33 or the value has bits above w; distinct by (width, values, path)."
    }
    fn cases(&self, tier: Tier) -> u64 {
        match tier {
            Tier::Quick => 32000,
            Tier::Thorough => 32000 * 100,
        }
    }
    fn stream_lens(&self) -> [usize; 3] {
        [40, 4, 4]
    }
    fn sweep(&self) -> Vec<Streams> {
        let mut v = vec![];
        for w in 1..=64u32 {
            for b in 0..(40 / BATCH) as u32 {
                for via in 0..3u32 {
                    v.push([vec![SWEEP_MAGIC, w, b, via], vec![], vec![]]);
                }
            }
        }
        v
    }
    fn required_classes(&self) -> Vec<&'static str> {
        vec!["width=64", "width=63", "width=1", "width>=33", "bits-above-width", "negative", "row-after-driver-failure", "bits-entry-before-the-values", "header>=65-columns", "X-and-C-on-wide-inputs"]
    }
    fn run(&self, s: &Streams) -> CaseOut {
        let mut out = CaseOut::new();
        let mut ch = Ch::new(&s[0]);
        let mut fail_at = None;
        let with_bits;
        let wide;
        let mut xc = false;
        let (w, vals, via, zx) = if s[0].first() == Some(&SWEEP_MAGIC) {
            ch.raw();
            let w = (ch.raw() as usize).clamp(1, 64);
            let b = ch.raw() as usize % (40 / BATCH);
            let via = [Via::Direct, Via::Arith, Via::Let][ch.raw() as usize % 3];
            let p = pool(w);
            out.class("sweep");
            with_bits = b % 2 == 1;
            wide = b == 2;
            (w, p[b * BATCH..(b + 1) * BATCH].to_vec(), vec![via], b == 0)
        } else {
            let w = match ch.weighted(&[6, 2, 1, 1, 1]) {
                0 => 1 + ch.upto(64),
                1 => 64,
                2 => 63,
                3 => 1,
                _ => 32 + ch.upto(3),
            };
            let n = 1 + ch.upto(BATCH);
            let mut vals = vec![];
            let mut via = vec![];
            for k in 0..n {
                // return to the value of the row before the previous one (v, w, v)
                if k >= 2 && ch.chance(1, 3) {
                    let v = vals[k - 2];
                    vals.push(v);
                    via.push([Via::Direct, Via::Arith, Via::Let][ch.upto(3)]);
                    continue;
                }
                let v = match ch.weighted(&[5, 2, 2]) {
                    0 => ch.u64() as i64,
                    1 => {
                        let p = pool(w);
                        p[ch.upto(p.len())]
                    }
                    _ => {
                        // a value with exactly one bit above the width set
                        let k = ch.upto(64);
                        ((ch.u64() & ((1u64 << w.min(63)) - 1)) | (1u64 << k)) as i64
                    }
                };
                vals.push(v);
                via.push([Via::Direct, Via::Arith, Via::Let][ch.upto(3)]);
            }
            let zx = ch.chance(1, 4);
            if ch.chance(1, 3) {
                fail_at = Some(1 + ch.upto(n));
            }
            with_bits = ch.chance(1, 3);
            wide = ch.chance(1, 8);
            xc = ch.chance(1, 10);
            (w, vals, via, zx)
        };
        out.class_if(w == 64, "width=64");
        out.class_if(w == 63, "width=63");
        out.class_if(w == 1, "width=1");
        out.class_if(w >= 33, "width>=33");
        let above = vals.iter().any(|v| reduce(*v, w) != *v);
        out.class_if(above, "bits-above-width");
        out.class_if(vals.iter().any(|v| *v < 0), "negative");
        out.nontrivial = w >= 33 || above;
        if xc {
            run_xc(&mut out, w.max(2), if w % 2 == 0 { 1 } else { 5 });
            if !out.is_fail() {
                run_after_error(&mut out, w, if w % 2 == 0 { 3 } else { 9 });
            }
            return out;
        }
        run_batch(&mut out, w, &vals, &via, zx, &s[1], fail_at, with_bits, wide);
        out
    }
}
