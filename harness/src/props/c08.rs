//! C08 - expression semantics: precedence, 64-bit two's-complement arithmetic, lazy ite.

use std::collections::BTreeMap;

use crate::choice::Ch;
use crate::device::*;
use crate::engine::*;
use crate::gen::*;
use crate::model::*;
use crate::print::*;
use crate::props::common::*;
use crate::real::*;
use crate::ri::*;

pub struct C08;

fn expr_cfg() -> ExprCfg {
    ExprCfg {
        max_depth: 6,
        boundary: true,
        total: true,
        random: false,
        signext: false,
        chains: true,
        groups: true,
        radix: true,
        bad_random_bounds: false,
        lazy_hazards: true,
        lazy_unassigned: true,
        odd_shifts: true,
        full_parens: false,
    }
}

#[derive(Default)]
struct Shape {
    levels: std::collections::BTreeSet<u8>,
    ops: usize,
    chain: bool,
    unary_under_binary: bool,
    ite: bool,
}

fn shape(e: &Expr, sh: &mut Shape) {
    e.visit(&mut |x| match x {
        Expr::Bin(op, a, b) => {
            sh.ops += 1;
            sh.levels.insert(op.level());
            let strip = |mut e: &Expr| {
                while let Expr::Group(g) = e {
                    e = g
                }
                e.clone()
            };
            if let Expr::Bin(op2, ..) = &**a {
                if op2.level() == op.level() && !(op.commutative() && op2 == op) {
                    sh.chain = true;
                }
            }
            if matches!(strip(a), Expr::Un(..)) || matches!(strip(b), Expr::Un(..)) {
                sh.unary_under_binary = true;
            }
        }
        Expr::Un(..) => sh.ops += 1,
        Expr::Ite(..) => {
            sh.ops += 1;
            sh.ite = true
        }
        _ => {}
    });
}

/// Shapes around which a "simplifying" rewrite would be tempting and wrong at the edges of the
/// 64-bit range: `a - -b / c`, `(a * c) / c`, `a / -1`, `(a + b) - b`, ... over boundary operands.
fn identity_template(ch: &mut Ch, env: &ExprEnv) -> Expr {
    let edge = |ch: &mut Ch| -> Expr {
        match ch.weighted(&[3, 2, 1, 1, 1, 3]) {
            0 => Expr::konst(i64::MIN),
            1 => Expr::konst(i64::MAX),
            2 => Expr::konst(-1),
            3 => Expr::konst(0),
            4 => Expr::konst(1),
            _ => {
                if env.vars.is_empty() {
                    Expr::konst(*ch.choose(&BOUNDARY))
                } else {
                    Expr::Var(env.vars[ch.upto(env.vars.len())].0.clone())
                }
            }
        }
    };
    let small = |ch: &mut Ch| Expr::konst(*ch.choose(&[2i64, 3, -2, 7, -1, 1, 5, -3]));
    let neg = |e: Expr| Expr::un(UnOp::Neg, e);
    let grp = |e: Expr| Expr::Group(Box::new(e));
    let (a, b, c) = (edge(ch), edge(ch), small(ch));
    match ch.upto(20) {
        0 => Expr::bin(BinOp::Sub, a, Expr::bin(BinOp::Div, neg(b), c)),
        1 => Expr::bin(BinOp::Add, a, Expr::bin(BinOp::Rem, neg(b), c)),
        2 => Expr::bin(BinOp::Sub, a, Expr::bin(BinOp::Mul, neg(b), c)),
        3 => Expr::bin(BinOp::Div, neg(b), c),
        4 => neg(grp(Expr::bin(BinOp::Div, b, c))),
        5 => Expr::bin(BinOp::Sub, a, grp(Expr::bin(BinOp::Sub, Expr::lit(0), b))),
        6 => Expr::bin(BinOp::Div, grp(Expr::bin(BinOp::Mul, a, c.clone())), c),
        7 => Expr::bin(BinOp::Shr, grp(Expr::bin(BinOp::Shl, a, Expr::lit(1))), Expr::lit(1)),
        8 => Expr::bin(BinOp::Sub, grp(Expr::bin(BinOp::Add, a, b.clone())), b),
        9 => Expr::un(UnOp::BitNot, neg(b)),
        10 => neg(Expr::un(UnOp::BitNot, b)),
        11 => Expr::bin(BinOp::Mul, a, Expr::konst(-1)),
        12 => Expr::bin(BinOp::Div, a, Expr::konst(-1)),
        13 => Expr::bin(BinOp::Rem, a, Expr::konst(-1)),
        14 => Expr::bin(BinOp::Lt, Expr::bin(BinOp::Sub, a, b), Expr::lit(0)),
        15 => Expr::un(UnOp::Not, Expr::un(UnOp::Not, b)),
        16 => Expr::bin(BinOp::Sub, a, neg(b)),
        17 => Expr::bin(BinOp::Add, a, neg(b)),
        18 => Expr::bin(BinOp::Add, Expr::bin(BinOp::Mul, grp(Expr::bin(BinOp::Div, a.clone(), c.clone())), c.clone()), Expr::bin(BinOp::Rem, a, c)),
        _ => Expr::bin(BinOp::Sub, Expr::bin(BinOp::Sub, a, neg(b)), neg(c)),
    }
}

impl Property for C08 {
    fn id(&self) -> &'static str {
        "C08"
    }
    fn rule(&self) -> &'static str {
        "profile `expr`: programs of `let`s + 8 rows `0 X X (expr)` (the expression sits in the row, or in a `let` before it, or in a `let` inside a while body that runs once); expression trees of depth <= 6 over all 16 binary and 3 unary operators, ite, literals in every radix, variables bound to 64-bit boundary values (three of them called ite, random and signExt), device outputs (boundary palette), equal-precedence chains, boundary shift counts, one row in six from a list of 20 shapes that invite a wrong algebraic rewrite at the edges of the 64-bit range (`a - -b / c`, `(a * c) / c`, `a / -1`, `(a + b) - b`, `(a / c) * c + a % c`, ... over MIN, MAX, -1, 0, 1 and the variables), one row in twelve an expression that cannot be evaluated although its value would not depend on the failing operand (`0 & (1/0)`, `zz * (7 % zz)` with zz = 0, `~0 | (1/0)`: the row must be an error item - only ite is lazy - and the caller goes on to the next row), one program in forty with 48 rows that are all `ite`s; hazards only in unselected ite branches (division by zero, signExt, random, and a variable that is bound only in a `while(0)` body and so has no value at run time); printed with minimal parentheses by the stated precedence table or redundant groups. Oracle: a program the parser rejects while it accepts the same program with every expression replaced by 0 is a violation (a valid expression was turned down); independent evaluator on the generating tree vs the untruncated expected value of a 64-bit output column. Non-trivial: an expression with >= 3 operators spanning >= 2 precedence levels, or an equal-precedence non-commutative chain, or unary under binary; distinct by source text."
    }
    fn cases(&self, tier: Tier) -> u64 {
        match tier {
            Tier::Quick => 32000,
            Tier::Thorough => 32000 * 100,
        }
    }
    fn stream_lens(&self) -> [usize; 3] {
        [700, 8, 8]
    }
    fn required_classes(&self) -> Vec<&'static str> {
        vec!["chain", "unary-under-binary", "levels>=3", "lazy-hazard", "lazy-unassigned-variable", "via-let", "via-let-in-while", "identity-template", "strictness-template", "long-program", "device-read", "radix-nondecimal", "level-1", "level-2", "level-3", "level-4", "level-5", "level-6", "level-7", "level-8"]
    }
    fn assumptions(&self) -> Vec<&'static str> {
        vec!["the evaluator in harness/src/ri.rs (eval_binop/eval_unop/eval_expr) renders the C08 statement correctly"]
    }
    fn run(&self, s: &Streams) -> CaseOut {
        let mut out = CaseOut::new();
        let mut ch = Ch::new(&s[0]);
        let cfg = expr_cfg();
        let sigs = vec![
            Sig { name: "A".into(), bits: 1, kind: Kind::In(InVal::Val(0)) },
            Sig { name: "Q".into(), bits: 64, kind: Kind::Out },
            Sig { name: "R".into(), bits: 64, kind: Kind::Out },
            Sig { name: "O".into(), bits: 64, kind: Kind::Out },
        ];
        // which call's value an expression sees is C04's business: the device of this profile
        // answers the same on every call
        let constant_device = true;
        let spec = DriverSpec { constant: true, ..DriverSpec::honest(&sigs, Ch::new(&s[2]).u64(), Palette::Boundary) };
        // variables
        let nvars = ch.upto(9);
        // `nvz` is a variable for the parser but never gets a value: it only occurs in
        // unselected ite branches
        let mut stmts = vec![Stmt::While(Expr::lit(0), vec![Stmt::Let(LAZY_UNASSIGNED.into(), Expr::lit(1))]), Stmt::Let("zz".into(), Expr::lit(0))];
        let mut vars: Vec<(String, bool)> = vec![];
        let mut values: BTreeMap<String, i64> = BTreeMap::new();
        values.insert("zz".into(), 0);
        // (a variable may be called like a function: it is one wherever no `(` follows)
        for name in ["a", "b", "ite", "c", "random", "d", "signExt", "x1"].iter().take(nvars) {
            let v = match ch.weighted(&[3, 2, 2]) {
                0 => *ch.choose(&BOUNDARY),
                1 => ch.u64() as i64,
                _ => ch.range(-4, 9),
            };
            stmts.push(Stmt::Let(name.to_string(), Expr::konst(v)));
            vars.push((name.to_string(), false));
            values.insert(name.to_string(), v);
        }
        let outs = vec!["Q".to_string(), "R".to_string()];
        // one program in forty is long: 48 rows, each an `ite` (what a parser accumulates over a
        // whole text shows only then)
        let long = ch.chance(1, 40);
        out.class_if(long, "long-program");
        let nrows = if long { 48 } else { 8 };
        let mut exprs = vec![];
        for id in 0..nrows {
            let env = ExprEnv { vars: &vars, outs: &outs, maybe: &[], cfg: &cfg };
            let d = 1 + ch.upto(cfg.max_depth as usize) as u32;
            let mut strict = false;
            let e = if long {
                let dd = 1 + ch.upto(2) as u32;
                let inner = gen_expr(&mut ch, dd, &env);
                Expr::Ite(Box::new(Expr::lit(1 + ch.upto(3) as u64)), Box::new(inner), Box::new(Expr::lit(0)))
            } else if ch.chance(1, 12) {
                // both operands of a binary operator are evaluated whatever the other one's value
                // is (only ite is lazy): these cannot be evaluated, and the row is an error item
                out.class("strictness-template");
                strict = true;
                let z = || Expr::var("zz");
                let grp = |e: Expr| Expr::Group(Box::new(e));
                match ch.upto(6) {
                    0 => Expr::bin(BinOp::And, Expr::lit(0), grp(Expr::bin(BinOp::Div, Expr::lit(1), Expr::lit(0)))),
                    1 => Expr::bin(BinOp::Mul, Expr::lit(0), grp(Expr::bin(BinOp::Rem, Expr::lit(7), Expr::lit(0)))),
                    2 => Expr::bin(BinOp::Or, Expr::konst(-1), grp(Expr::bin(BinOp::Div, Expr::lit(1), Expr::lit(0)))),
                    3 => Expr::bin(BinOp::And, z(), grp(Expr::bin(BinOp::Div, Expr::lit(5), z()))),
                    4 => Expr::bin(BinOp::Mul, grp(Expr::bin(BinOp::Mul, z(), Expr::lit(3))), grp(Expr::bin(BinOp::Rem, Expr::lit(7), z()))),
                    _ => Expr::bin(BinOp::Or, grp(Expr::bin(BinOp::Sub, z(), Expr::lit(1))), grp(Expr::bin(BinOp::Rem, Expr::lit(1), z()))),
                }
            } else if ch.chance(1, 6) {
                out.class("identity-template");
                identity_template(&mut ch, &env)
            } else {
                gen_expr(&mut ch, d, &env)
            };
            // the value reaches the row directly, or through a `let` (the same expression in
            // statement position), or as the bound-like operand of a loop that runs once
            let entry = match if strict { 0 } else { ch.weighted(&[4, 2, 1]) } {
                0 => Entry::Paren(e.clone()),
                1 => {
                    stmts.push(Stmt::Let("tv".into(), e.clone()));
                    out.class("via-let");
                    Entry::Paren(Expr::var("tv"))
                }
                _ => {
                    // `while` condition position: `let tw = 1; while(tw) let tv = <e>; let tw = 0; end while`
                    stmts.push(Stmt::Let("tw".into(), Expr::lit(1)));
                    stmts.push(Stmt::While(Expr::var("tw"), vec![Stmt::Let("tv".into(), e.clone()), Stmt::Let("tw".into(), Expr::lit(0))]));
                    out.class("via-let-in-while");
                    Entry::Paren(Expr::var("tv"))
                }
            };
            stmts.push(Stmt::Row(id, vec![
                Entry::Num(0, Radix::Dec),
                Entry::X(true),
                Entry::X(true),
                entry,
            ]));
            exprs.push(e);
        }
        let prog = Program { header: vec!["A".into(), "Q".into(), "R".into(), "O".into()], stmts };
        let text = canonical(&prog).text;
        render_case(&mut out, &text, &sigs, Some(&spec));

        let mut any_nt = false;
        for e in &exprs {
            let mut sh = Shape::default();
            shape(e, &mut sh);
            let nt = (sh.ops >= 3 && sh.levels.len() >= 2) || sh.chain || sh.unary_under_binary;
            any_nt |= nt;
            out.class_if(sh.chain, "chain");
            out.class_if(sh.unary_under_binary, "unary-under-binary");
            out.class_if(sh.levels.len() >= 3, "levels>=3");
            out.class_if(sh.ite, "ite");
            for l in &sh.levels {
                out.class(["", "level-1", "level-2", "level-3", "level-4", "level-5", "level-6", "level-7", "level-8"][*l as usize]);
            }
            e.visit(&mut |x| match x {
                Expr::Ite(c, a, b) => {
                    let haz = |e: &Expr| matches!(e, Expr::SignExt(..) | Expr::Random(_)) || matches!(e, Expr::Bin(BinOp::Div | BinOp::Rem, _, r) if matches!(**r, Expr::Lit(0, _)));
                    if matches!(**c, Expr::Lit(..)) && (haz(a) || haz(b)) {
                        out.class("lazy-hazard");
                    }
                }
                Expr::Var(n) if n == "Q" || n == "R" => out.class("device-read"),
                Expr::Var(n) if n == LAZY_UNASSIGNED => out.class("lazy-unassigned-variable"),
                Expr::Lit(_, r) if *r != Radix::Dec => out.class("radix-nondecimal"),
                _ => {}
            });
        }
        out.nontrivial = any_nt;

        // A parser that turns down this program although it accepts the same program with every
        // expression replaced by `0` has turned down a valid expression: that is this property's
        // business (any other rejection is not: the case is discarded).
        if let Err(LoadErr::Parse(m)) = load(&text, &sigs) {
            fn zero_exprs(bl: &mut [Stmt]) {
                for st in bl {
                    match st {
                        Stmt::Let(_, e) => *e = Expr::lit(0),
                        Stmt::Row(_, es) => {
                            for en in es.iter_mut() {
                                if let Entry::Paren(e) = en {
                                    if !matches!(e, Expr::Var(_)) {
                                        *e = Expr::lit(0)
                                    }
                                }
                            }
                        }
                        Stmt::While(_, inner) => zero_exprs(inner),
                        _ => {}
                    }
                }
            }
            let mut control = prog.clone();
            zero_exprs(&mut control.stmts);
            if load(&canonical(&control).text, &sigs).is_ok() {
                out.fail(
                    "c08:valid-expression-rejected",
                    format!("the parser rejects this program ({m}) but accepts the same program with every expression replaced by 0: a valid expression was turned down"),
                );
                return out;
            }
        }
        let Some(tc) = load_wellformed(&mut out, "c08", &text, &sigs) else {
            return out;
        };
        let real = run_real(&tc, &sigs, &spec, &RunOpts { max_next: nrows + 1, continue_after_error: true, ..Default::default() });
        if let Some(RealItem::Panic(p)) = &real.ctor {
            out.fail(p.key(), format!("constructor panicked: {p}"));
            return out;
        }
        if real.ctor.is_some() {
            out.fail("c08:ctor-failed", format!("constructor failed: {:?}", real.ctor));
            return out;
        }
        // every random() of this profile sits in an unselected ite branch: no draw may happen
        if !real.draws.is_empty() {
            out.fail(
                "c08:ite-not-lazy",
                format!("the generator was used although every random() is in an unselected ite branch: {:?}", &real.draws[..real.draws.len().min(6)]),
            );
            return out;
        }
        for (k, e) in exprs.iter().enumerate() {
            // outputs of the latest output-reading call before row k is evaluated: call k
            let outs_now: BTreeMap<String, OutVal> = [("Q", 1usize), ("R", 2usize)]
                .iter()
                .map(|(n, i)| (n.to_string(), spec.answer(if constant_device { 0 } else { k }, *i)))
                .collect();
            let want = eval_expr(e, &mut MapResolver { vars: Some(&values), outs: &outs_now });
            let want = match want {
                Ok(v) => v,
                // a strictness template: the row must be an error item
                Err(Hazard::DivZero) => {
                    match real.items.get(k) {
                        Some(RealItem::RuntimeErr(_)) => {}
                        Some(RealItem::Panic(p)) => {
                            out.fail(p.key(), format!("row {k}: ({}) panicked: {p}", expr_text(e)));
                            return out;
                        }
                        other => {
                            out.fail(
                                "c08:operand-not-evaluated",
                                format!("row {k}: ({}) cannot be evaluated (an operand divides by zero; every operator but ite evaluates both operands), yet it gave {:?}", expr_text(e), other.map(|o| o.short())),
                            );
                            return out;
                        }
                    }
                    continue;
                }
                Err(h) => {
                    // the profile is total: this would be a harness bug, not a verdict
                    out.discard("hazard-in-total-expression");
                    let _ = h;
                    return out;
                }
            };
            match real.items.get(k) {
                Some(RealItem::Row(r)) => {
                    let got = r.outputs.iter().find(|o| o.name == "O").map(|o| o.expected);
                    if got != Some(ExpVal::Val(want)) {
                        out.fail(
                            "c08:wrong-value",
                            format!(
                                "row {k}: ({}) evaluated to {:?}, should be {want}\n vars={values:?} outs={outs_now:?}",
                                expr_text(e),
                                got
                            ),
                        );
                        return out;
                    }
                }
                Some(RealItem::Panic(p)) => {
                    out.fail(p.key(), format!("row {k}: ({}) panicked: {p}", expr_text(e)));
                    return out;
                }
                Some(other) => {
                    out.fail(
                        "c08:error-instead-of-value",
                        format!("row {k}: ({}) should evaluate to {want} but gave {}", expr_text(e), other.short()),
                    );
                    return out;
                }
                None => {
                    out.fail("c08:missing-row", format!("row {k} was not produced"));
                    return out;
                }
            }
        }
        out
    }
}
