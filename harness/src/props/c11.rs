//! C11 - binding a test to a signal list succeeds exactly when the two fit together.

use crate::choice::Ch;
use crate::device::*;
use crate::engine::*;
use crate::gen::*;
use crate::model::*;
use crate::props::common::*;
use crate::real::*;

pub struct C11;

fn fit_cfg() -> Cfg {
    let mut c = Cfg::flow();
    c.n_in = (1, 3);
    c.n_out = (1, 3);
    c.n_bidir = (0, 2);
    c.interleave = true;
    c.widths = Widths::Mixed;
    c.permute_header = true;
    c.omit_cols = true;
    c.max_virtual = 2;
    c.allow_c = true;
    c.allow_input_x = true;
    c.max_x = 2;
    c.max_depth = 3;
    c.shared_cols = true;
    c
}

pub fn edit_list(ch: &mut Ch, sigs: &mut Vec<Sig>, b: &Built, log: &mut Vec<String>) {
    if sigs.is_empty() {
        return;
    }
    let i = ch.upto(sigs.len());
    let virt = b.analysis.virtuals.clone();
    match ch.upto(15) {
        0 => {
            let new = ["ZZ", "A", "Q", "n", "IO_out", "Q_out"][ch.upto(6)].to_string();
            log.push(format!("rename {} -> {new}", sigs[i].name));
            sigs[i].name = new;
        }
        1 => {
            log.push(format!("drop {}", sigs[i].name));
            sigs.remove(i);
        }
        2 => {
            log.push(format!("duplicate {}", sigs[i].name));
            let mut d = sigs[i].clone();
            if ch.chance(1, 2) {
                // same name, other direction
                d.kind = if d.is_output() { Kind::In(InVal::Val(0)) } else { Kind::Out };
            }
            let at = ch.upto(sigs.len() + 1);
            sigs.insert(at, d);
        }
        3 => {
            let k = match sigs[i].kind {
                Kind::In(_) => {
                    if ch.chance(1, 2) {
                        Kind::Out
                    } else {
                        Kind::Bidir(InVal::Val(0))
                    }
                }
                Kind::Out => {
                    if ch.chance(1, 2) {
                        Kind::In(InVal::Val(0))
                    } else {
                        Kind::Bidir(InVal::Z)
                    }
                }
                Kind::Bidir(d) => {
                    if ch.chance(1, 2) {
                        Kind::In(d)
                    } else {
                        Kind::Out
                    }
                }
            };
            log.push(format!("flip {} to {:?}", sigs[i].name, k));
            sigs[i].kind = k;
        }
        4 => {
            let name = ["EXTRA", "Z9", "X", "C"][ch.upto(4)].to_string();
            log.push(format!("add unrelated {name}"));
            let kind = match ch.upto(3) {
                0 => Kind::In(InVal::Val(1)),
                1 => Kind::Out,
                _ => Kind::Bidir(InVal::Z),
            };
            let at = ch.upto(sigs.len() + 1);
            sigs.insert(at, Sig { name, bits: 1 + ch.upto(64), kind });
        }
        5 => {
            log.push("reorder".into());
            let p = ch.permutation(sigs.len());
            *sigs = p.into_iter().map(|k| sigs[k].clone()).collect();
        }
        6 => {
            if let Some(v) = virt.first() {
                log.push(format!("rename {} -> virtual name {v}", sigs[i].name));
                sigs[i].name = v.clone();
            }
        }
        7 => {
            // name <-> name_out
            let n = sigs[i].name.clone();
            let new = match n.strip_suffix("_out") {
                Some(s) => s.to_string(),
                None => format!("{n}_out"),
            };
            log.push(format!("rename {n} -> {new}"));
            sigs[i].name = new;
        }
        8 => {
            // make a read name an input
            if let Some(r) = b.analysis.reads.first() {
                if let Some(s) = sigs.iter_mut().find(|s| s.name == *r) {
                    log.push(format!("make read output {r} an input"));
                    s.kind = Kind::In(InVal::Val(0));
                }
            }
        }
        9 => {
            // make a C column an output
            if let Some(c) = b.analysis.ccols.iter().next() {
                if let Some(s) = sigs.iter_mut().find(|s| s.name == *c) {
                    log.push(format!("make C column {c} an output"));
                    s.kind = Kind::Out;
                }
            }
        }
        10 => {
            // add an input called <bidir>_out / <output>_out
            if let Some(o) = sigs.iter().find(|s| s.is_output()).map(|s| s.name.clone()) {
                log.push(format!("add input {o}_out"));
                sigs.push(Sig { name: format!("{o}_out"), bits: 4, kind: Kind::In(InVal::Val(0)) });
            }
        }
        11 => {
            // take the input away from under a C column called <b>_out: the column is then only
            // the expected value of the bidirectional <b>
            let c = b.analysis.ccols.iter().find(|c| c.ends_with("_out") && sigs.iter().any(|s| s.name == **c && s.is_input())).cloned();
            if let Some(c) = c {
                log.push(format!("drop the input {c} under a C column"));
                sigs.retain(|s| s.name != c);
                let stem = c.strip_suffix("_out").unwrap().to_string();
                if !sigs.iter().any(|s| s.name == stem) {
                    sigs.push(Sig { name: stem, bits: 1 + ch.upto(64), kind: Kind::Bidir(InVal::Z) });
                }
            }
        }
        12 => {
            // an output that a `declare` reads and that is also the name of a variable somewhere
            // in the program: make it an input (the declare, blind to variables, then reads
            // something that is not output-capable)
            let mut vreads: Vec<String> = vec![];
            for (_, e) in b.prog.virtuals() {
                e.visit(&mut |x| {
                    if let Expr::Var(n) = x {
                        vreads.push(n.clone())
                    }
                });
            }
            let mut bound: Vec<String> = vec![];
            b.prog.visit_stmts(&mut |st, _| match st {
                Stmt::Let(n, _) | Stmt::Loop(n, _, _) => bound.push(n.clone()),
                Stmt::Repeat(..) => bound.push("n".into()),
                _ => {}
            });
            if let Some(r) = vreads.iter().find(|r| bound.contains(r)) {
                if let Some(sg) = sigs.iter_mut().find(|s| s.name == *r && s.is_output()) {
                    log.push(format!("make {r}, read by a declare and also a variable name, an input"));
                    sg.kind = Kind::In(InVal::Val(0));
                }
            }
        }
        13 => {
            // a read output called <x>_out becomes the `_out` column of a bidirectional <x>: the
            // column is still legal, the identifier no longer names a signal
            if let Some(r) = b.analysis.reads.iter().find(|r| r.ends_with("_out") && sigs.iter().any(|s| s.name == **r && matches!(s.kind, Kind::Out))).cloned() {
                let stem = r.strip_suffix("_out").unwrap().to_string();
                if !sigs.iter().any(|s| s.name == stem) {
                    log.push(format!("replace the read output {r} by a bidirectional {stem}"));
                    let at = sigs.iter().position(|s| s.name == r).unwrap();
                    let bits = sigs[at].bits;
                    sigs[at] = Sig { name: stem, bits, kind: Kind::Bidir(InVal::Z) };
                }
            }
        }
        _ => {
            log.push(format!("rewidth {}", sigs[i].name));
            sigs[i].bits = 1 + ch.upto(64);
        }
    }
}

impl Property for C11 {
    fn id(&self) -> &'static str {
        "C11"
    }
    fn rule(&self) -> &'static str {
        "profile `fit`: a generated program with device reads, C columns, virtual signals, bidirectional and shared columns, total expressions; its fitted signal list, then 0-2 edits of the list (rename, drop, duplicate also with the other direction, flip direction, add an unrelated signal, reorder, rename to a virtual's name, name<->name_out, make a read name an input, make a C column an output, add an input called <output>_out, take the input away from under a shared `<b>_out` column that holds C, make an output that a declare reads and that is also a variable's name an input, replace a read output called <x>_out by a bidirectional <x>, change a width). Oracle: the four clauses of the statement evaluated on the model with an independent static scope analysis (one frame per loop/repeat, none for while, let visible after its right-hand side, counter invisible in the bound, declare blind to variables) vs Ok/Err of with_signals; if Ok, the test is iterated to the end with an honest driver and any panic or error item is a violation. Non-trivial: accepted with >= 1 of {read output, C column, virtual, bidirectional}, or rejected by an edit; distinct by source + list."
    }
    fn cases(&self, tier: Tier) -> u64 {
        match tier {
            Tier::Quick => 64000,
            Tier::Thorough => 64000 * 100,
        }
    }
    fn required_classes(&self) -> Vec<&'static str> {
        vec!["accepted", "rejected", "accepted-after-edit", "reads-device", "C-row", "declare", "shared-column", "rejected:duplicate", "rejected:header", "rejected:C-column", "rejected:read", "C-in-shared-column", "rejected:C-in-bidir-out-column", "text-without-final-newline"]
    }
    fn run(&self, s: &Streams) -> CaseOut {
        let mut out = CaseOut::new();
        out.owns_panics = true;
        let mut built = gen_case(&mut Ch::new(&s[0]), &fit_cfg());
        let mut ech = Ch::new(&s[2]);
        // One case in twelve with a virtual signal: a statement that reads the virtual signal's name is put at the
        // start or at the end of the program (`let rvq = (V + 0);`, or a `declare` over it). A virtual signal is not an
        // output-capable signal of the list - unless a variable of that name is in scope, the test fits no list.
        if !built.analysis.virtuals.is_empty() && Ch::new(&s[1]).chance(1, 12) {
            let v = built.analysis.virtuals[ech.upto(built.analysis.virtuals.len())].clone();
            let e = Expr::Group(Box::new(Expr::bin(BinOp::Add, Expr::var(&v), Expr::lit(0))));
            let st = if ech.chance(1, 3) { Stmt::Declare("rvq".into(), e) } else { Stmt::Let("rvq".into(), e) };
            if ech.chance(1, 2) {
                built.prog.stmts.insert(0, st);
            } else {
                built.prog.stmts.push(st);
            }
            built.analysis = analyse(&built.prog);
            out.class_if(built.analysis.reads.contains(&v), "program-reads-a-virtual-signal");
        }
        let mut text = built_text(&built);
        // a third of the texts end without a line break behind their last line
        if ech.chance(1, 3) {
            while text.ends_with('\n') {
                text.pop();
            }
            out.class("text-without-final-newline");
        }
        let mut sigs = built.sigs.clone();
        let nedits = ech.weighted(&[3, 5, 3]);
        let mut log = vec![];
        for _ in 0..nedits {
            edit_list(&mut ech, &mut sigs, &built, &mut log);
        }
        render_case(&mut out, &text, &sigs, None);
        out.put("edits", log.join("; "));
        let f = feats(&built);
        feat_classes(&mut out, &f);
        let want = fits(&built.prog, &built.analysis, &sigs);
        // a C column that is the expected column of a bidirectional signal
        let c_in_bidir_out = |sigs: &[Sig], also_input: bool| {
            built.analysis.ccols.iter().any(|c| {
                sigs.iter().any(|s| matches!(s.kind, Kind::Bidir(_)) && format!("{}_out", s.name) == *c) && sigs.iter().any(|s| s.name == *c && s.is_input()) == also_input
            })
        };
        let parsed = match parse(&text) {
            Err(p) => {
                out.fail(p.key(), format!("parse panicked: {p}"));
                return out;
            }
            Ok(Err(e)) => {
                let _ = e;
                out.discard("well-formed-program-rejected-by-parser");
                return out;
            }
            Ok(Ok(p)) => p,
        };
        let got = guarded(|| parsed.with_signals(to_signals(&sigs)));
        let got = match got {
            Err(p) => {
                out.fail(p.key(), format!("with_signals panicked: {p} (model verdict: {want:?})"));
                return out;
            }
            Ok(g) => g,
        };
        let shared = built.prog.header.iter().any(|h| {
            sigs.iter().any(|s| s.is_input() && s.name == *h) && sigs.iter().any(|s| s.expected_col().as_deref() == Some(h.as_str()))
        });
        match (&want, got) {
            (Err(why), Ok(_)) => {
                out.fail("c11:accepted-misfit", format!("with_signals accepted a list that does not fit: {why}"));
            }
            (Ok(()), Err(e)) => {
                out.fail("c11:rejected-fit", format!("with_signals rejected a fitting list: {}", err_text(&e)));
            }
            (Err(why), Err(_)) => {
                out.class("rejected");
                out.class(if why.starts_with("duplicate") || why.contains("also virtual") {
                    "rejected:duplicate"
                } else if why.starts_with("header") {
                    "rejected:header"
                } else if why.starts_with("C column") {
                    "rejected:C-column"
                } else {
                    "rejected:read"
                });
                out.class_if(why.starts_with("C column") && c_in_bidir_out(&sigs, false), "rejected:C-in-bidir-out-column");
                out.nontrivial = true;
            }
            (Ok(()), Ok(tc)) => {
                out.class("accepted");
                out.class_if(c_in_bidir_out(&sigs, true), "C-in-shared-column");
                out.class_if(nedits > 0, "accepted-after-edit");
                out.class_if(shared, "shared-column");
                out.nontrivial = f.device_read || f.c_rows > 0 || f.declares > 0 || sigs.iter().any(|s| matches!(s.kind, Kind::Bidir(_)));
                // "a test accepted this way can always be iterated"
                let spec = DriverSpec::honest(&sigs, ech.u64(), Palette::Small);
                let real = run_real(&tc, &sigs, &spec, &RunOpts { max_next: 300, ..Default::default() });
                if let Some(c) = &real.ctor {
                    match c {
                        RealItem::Panic(p) => out.fail(p.key(), format!("constructing the iterator of an accepted test panicked: {p}")),
                        o => out.fail("c11:accepted-but-ctor-fails", format!("accepted test, honest driver, constructor fails: {}", o.short())),
                    }
                    return out;
                }
                for (i, item) in real.items.iter().enumerate() {
                    match item {
                        RealItem::Row(_) => {}
                        RealItem::Panic(p) => {
                            out.fail(p.key(), format!("iterating an accepted test panicked at item {i}: {p}"));
                            return out;
                        }
                        // a name that is a variable for the scope rule but is never assigned on
                        // the executed path (its `let` sits in a while body that did not run) is
                        // a run-time condition (C10), not a mismatch between test and list
                        RealItem::RuntimeErr(_) if !crate::model::names_let_in_while(&built.prog).is_empty() => {
                            out.class("unassigned-variable-at-runtime");
                            break;
                        }
                        o => {
                            out.fail("c11:accepted-but-errors", format!("accepted test, honest driver, total expressions: item {i} is {}", o.short()));
                            return out;
                        }
                    }
                }
            }
        }
        out
    }
}
