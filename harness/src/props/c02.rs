//! C02 - driver protocol: defaults first, then exactly one call per row, passed verbatim.

use crate::choice::Ch;
use crate::device::*;
use crate::engine::*;
use crate::gen::*;
use crate::model::*;
use crate::probe::*;
use crate::props::c05::expansion_cfg;
use crate::props::common::*;
use crate::real::*;

pub struct C02;

/// number of mid-clock rows of a loop-free program, from the model alone
fn midclock_formula(b: &Built) -> Option<u64> {
    let mut total = 0u64;
    for s in &b.prog.stmts {
        match s {
            Stmt::Row(_, es) => {
                let mut col = 0;
                let mut k = 0;
                let mut c = false;
                for e in es {
                    match e {
                        Entry::X(_) if b.cols[col].role != ColRole::ExpectedOnly => k += 1,
                        Entry::C(_) => c = true,
                        _ => {}
                    }
                    col += e.width();
                }
                if c {
                    total += 2 * (1u64 << k);
                }
            }
            Stmt::Let(..) | Stmt::ResetRandom | Stmt::Declare(..) => {}
            _ => return None,
        }
    }
    Some(total)
}

impl Property for C02 {
    fn id(&self) -> &'static str {
        "C02"
    }
    fn rule(&self) -> &'static str {
        "profile `protocol`: expansion-style programs rich in C and X rows, both driver types (write_input overridden / defaulted), defaults of any size (also wider than their signal), now and then an input `<b>_out` next to a bidirectional `<b>`, row values that in half of the cases need not fit the width of the signal they drive, >= 1 output-capable signal (one test in six: none at all - a pure stimulus whose rows report no outputs, where the mid-clock rows are known from their position in the expansion only), rows that repeat the row before them entry by entry (with or without one input turned into C; a quarter of the programs carry no tags, so that such rows are identical vectors), and a caller schedule (prefix length at which the iterator is dropped, 0-3 extra next() calls after None). Oracle: self-consistency between the recording driver's log and the items, measured as the log delta of every API call (constructor = one output-reading call with every input-capable signal at its default; Ok(row) = exactly one call, vector identical to row.inputs entry by entry, output-reading method iff row.outputs non-empty; None = zero calls, also afterwards; drop = zero calls; laziness: log length before the k-th next() = 1 + rows already returned), plus a closed formula for the number of mid-clock rows of loop-free programs. Non-trivial: trace has a mid-clock row or >= 3 rows, and the schedule has a post-None call or an early drop; distinct by source + signals + driver + schedule."
    }
    fn cases(&self, tier: Tier) -> u64 {
        match tier {
            Tier::Quick => 48000,
            Tier::Thorough => 48000 * 100,
        }
    }
    fn required_classes(&self) -> Vec<&'static str> {
        vec!["mid-clock-row", "early-drop", "post-none-calls", "overriding-driver", "defaulting-driver", "formula-checked", "ran-to-end", "driver-failure-inside-an-expansion", "pure-stimulus-test", "header>=65-columns", "malformed-answer-then-more-rows", "untagged-program"]
    }
    fn run(&self, s: &Streams) -> CaseOut {
        let mut out = CaseOut::new();
        let mut cfg = expansion_cfg();
        cfg.device_whiles = false;
        let mut dch = Ch::new(&s[2]);
        // one test in six is a pure stimulus: input signals only, nothing to read back. Its
        // rows carry no output entries at all, and still every row that is not a mid-clock row
        // is sent with the output-reading call.
        // in half of the cases row values are whatever the expressions give (they need not fit
        // the signal they drive): the vector is passed on verbatim all the same
        if dch.chance(1, 2) {
            cfg.fit = Fit::Free;
        }
        cfg.wide_inputs = dch.chance(1, 30);
        out.class_if(cfg.wide_inputs, "header>=65-columns");
        let pure_stimulus = dch.chance(1, 6);
        if pure_stimulus {
            cfg.n_out = (0, 0);
            cfg.n_bidir = (0, 0);
            cfg.max_virtual = 0;
            cfg.reads = false;
        }
        // rows that repeat the row before them (with or without a clock added); in a quarter of
        // the cases no tags are planted, so that such rows really are identical vectors
        cfg.dup_rows = true;
        // an input called `<b>_out` next to a bidirectional `<b>` now and then (one column then
        // feeds an input and is an expected value at once); defaults of any size, also ones that
        // do not fit the width of their signal (they are sent as they are)
        cfg.shared_cols = true;
        cfg.wild_defaults = true;
        let untagged = !pure_stimulus && dch.chance(1, 4);
        out.class_if(untagged, "untagged-program");
        let mut built = gen_case(&mut Ch::new(&s[0]), &cfg);
        // tags: which source row is an item from, and where in its expansion does it sit?
        let rows = if untagged { Default::default() } else { instrument(&mut built, &mut Ch::new(&s[1]), 0, ProbePref::Vars, &[]) };
        let text = built_text(&built);
        // no output-capable and no virtual signal: checkedness cannot be read off row.outputs
        let has_outs = built.sigs.iter().any(|s| s.is_output()) || !built.analysis.virtuals.is_empty();
        out.class_if(!has_outs, "pure-stimulus-test");
        let spec = gen_spec(
            &mut dch,
            &built.sigs,
            &SpecCfg {
                palette: Palette::Small,
                zx: 0,
                free_layout: false,
                must_supply: built.must_supply(),
                both_driver_types: true,
            },
        );
        // schedule
        let early_drop = dch.chance(1, 3);
        let prefix = if early_drop { dch.upto(12) } else { 400 };
        let extra = dch.upto(4);
        render_case(&mut out, &text, &built.sigs, Some(&spec));
        out.put("schedule", format!("max_next={prefix} extra_after_none={extra}"));
        out.class(if spec.override_write { "overriding-driver" } else { "defaulting-driver" });

        // termination guard only (not an oracle): skip programs the reference cannot finish
        let t = crate::ri::run(&built.prog, &built.sigs, &spec, &crate::ri::RiOpts::default());
        if matches!(t.end, crate::ri::RiEnd::StepCap) {
            out.discard("step-cap");
            return out;
        }

        let Some(tc) = load_wellformed(&mut out, "c02", &text, &built.sigs) else {
            return out;
        };
        let real = run_real(
            &tc,
            &built.sigs,
            &spec,
            &RunOpts { max_next: prefix, extra_after_end: extra, fuel: fuel_for(t.facts.steps), ..Default::default() },
        );
        if let Some(c) = &real.ctor {
            match c {
                RealItem::Panic(p) => out.fail(p.key(), format!("constructor panicked: {p}")),
                o => out.fail("c02:ctor-failed", format!("constructor failed with a fault-free driver: {}", o.short())),
            }
            return out;
        }
        // constructor: exactly one output-reading call, every input-capable signal at its default
        if real.log_len_before.first() != Some(&1) {
            out.fail(
                "c02:ctor-calls",
                format!("constructing the iterator made {:?} driver calls, should be exactly 1", real.log_len_before.first()),
            );
            return out;
        }
        let c0 = &real.log[0];
        let mut got: Vec<(String, InVal)> = c0.inputs.iter().map(|(n, v, _)| (n.clone(), *v)).collect();
        let mut want: Vec<(String, InVal)> =
            built.sigs.iter().filter(|s| s.is_input()).map(|s| (s.name.clone(), s.default().unwrap())).collect();
        got.sort();
        want.sort();
        if !c0.read || got != want {
            out.fail(
                "c02:ctor-vector",
                format!(
                    "constructor call: read={} vector=[{}], should be the output-reading call with [{}]",
                    c0.read,
                    fmt_inputs(&got),
                    fmt_inputs(&want)
                ),
            );
            return out;
        }
        // position of every item within the expansion of its source row (from the tags)
        let tag_of0 = |r: &RealRow| match r.inputs.iter().find(|e| e.0 == "TAG").map(|e| e.1) {
            Some(InVal::Val(t)) => Some(t),
            _ => None,
        };
        let tags0: Vec<Option<i64>> = real.items.iter().map(|i| if let RealItem::Row(r) = i { tag_of0(r) } else { None }).collect();
        let pos0 = positions(&tags0, &rows);
        let mid_by_position = |i: usize| -> Option<bool> {
            pos0.get(i).copied().flatten().map(|(rid, p)| {
                let phases = if rows[&rid].cs.is_empty() { 1 } else { 3 };
                p % phases != phases - 1
            })
        };
        // every next()
        let mut rows_so_far = 0usize;
        let mut midclock = 0u64;
        for (k, item) in real.items.iter().enumerate() {
            let before = real.log_len_before[k];
            let after = real.log_len_before.get(k + 1).copied().unwrap_or(real.log.len());
            if before != 1 + rows_so_far {
                out.fail(
                    "c02:not-lazy",
                    format!("before next() #{k} the driver had seen {before} calls, should be {} (constructor + rows returned)", 1 + rows_so_far),
                );
                return out;
            }
            match item {
                RealItem::Row(r) => {
                    if after - before != 1 {
                        out.fail("c02:calls-per-row", format!("next() #{k} returned a row and made {} driver calls", after - before));
                        return out;
                    }
                    let call = &real.log[before];
                    if call.inputs != r.inputs {
                        out.fail(
                            "c02:vector-not-verbatim",
                            format!("next() #{k}: driver received {:?} but row.inputs is {:?}", call.inputs, r.inputs),
                        );
                        return out;
                    }
                    // a mid-clock row: by its (empty) outputs where the test has any output to
                    // report, by its position in the expansion otherwise
                    let is_mid = if has_outs { r.outputs.is_empty() } else { mid_by_position(k).unwrap_or(false) };
                    if !has_outs && mid_by_position(k).is_none() {
                        out.discard("untagged-row");
                        return out;
                    }
                    let want_read = !is_mid || !spec.override_write;
                    if call.read != want_read {
                        out.fail(
                            "c02:wrong-method",
                            format!(
                                "next() #{k}: row.outputs has {} entries, driver (override_write={}) saw the {} method",
                                r.outputs.len(),
                                spec.override_write,
                                if call.read { "output-reading" } else { "write-only" }
                            ),
                        );
                        return out;
                    }
                    if is_mid {
                        midclock += 1;
                    }
                    rows_so_far += 1;
                }
                RealItem::Panic(p) => {
                    out.fail(p.key(), format!("next() #{k} panicked: {p}"));
                    return out;
                }
                RealItem::RuntimeErr(m) => {
                    out.fail("c02:unexpected-error", format!("next() #{k}: runtime error with a fault-free driver and total program: {m}"));
                    return out;
                }
                RealItem::DriverErr(_) => {
                    out.fail("c02:unexpected-error", "driver error from a fault-free driver");
                    return out;
                }
            }
        }
        let n = real.items.len();
        if real.ended {
            // the next() that returned None, and every later one, makes no call
            let base = real.log_len_before[n];
            for (j, l) in real.log_len_before[n..].iter().enumerate() {
                if *l != base {
                    out.fail("c02:call-after-none", format!("driver call made by next() call {} after the end", j));
                    return out;
                }
            }
            if real.after_end.iter().any(|b| !*b) {
                out.fail("c02:some-after-none", "next() returned Some after it had returned None");
                return out;
            }
            out.class("ran-to-end");
            if let Some(want) = midclock_formula(&built) {
                out.class("formula-checked");
                if want != midclock {
                    out.fail(
                        "c02:midclock-count",
                        format!("loop-free program must yield {want} rows with empty outputs, yielded {midclock}"),
                    );
                    return out;
                }
            }
        }
        if real.log.len() != *real.log_len_before.last().unwrap() {
            out.fail("c02:call-on-drop", "dropping the iterator made a driver call");
            return out;
        }
        if real.log.len() != 1 + rows_so_far {
            out.fail("c02:unaccounted-call", format!("{} driver calls for constructor + {} rows", real.log.len(), rows_so_far));
            return out;
        }
        // which rows are checked is decided by their position in the expansion of their
        // source row: without C every item, with C the last of each 0-1-0 triple
        let tag_of = |r: &RealRow| match r.inputs.iter().find(|e| e.0 == "TAG").map(|e| e.1) {
            Some(InVal::Val(t)) => Some(t),
            _ => None,
        };
        let run_override = spec.override_write;
        let check_positions = |run: &RealRun, out: &mut CaseOut| -> bool {
            let tags: Vec<Option<i64>> = run.items.iter().map(|i| if let RealItem::Row(r) = i { tag_of(r) } else { None }).collect();
            let pos = positions(&tags, &rows);
            for (i, item) in run.items.iter().enumerate() {
                let (RealItem::Row(r), Some((rid, p))) = (item, pos[i]) else { continue };
                let info = &rows[&rid];
                let phases = if info.cs.is_empty() { 1 } else { 3 };
                let must_be_checked = p % phases == phases - 1;
                if !has_outs {
                    // nothing to report in row.outputs: the call kind carries the distinction
                    let before = run.log_len_before[i];
                    if let Some(call) = run.log.get(before) {
                        if call.read != (must_be_checked || !run_override) {
                            out.fail(
                                "c02:wrong-method",
                                format!(
                                    "next() #{i}: item at position {p} of the expansion of source row #{rid} ({} C columns) of a test without outputs was sent with the {} method",
                                    info.cs.len(),
                                    if call.read { "output-reading" } else { "write-only" }
                                ),
                            );
                            return false;
                        }
                    }
                    continue;
                }
                if must_be_checked == r.outputs.is_empty() {
                    out.fail(
                        "c02:wrong-rows-checked",
                        format!(
                            "next() #{i}: item at position {p} of the expansion of source row #{rid} ({} C columns) has {} output entries; checked rows (every row without C, the third of each clock triple) get the output-reading call, the two mid-clock rows the write-only call and empty outputs",
                            info.cs.len(),
                            r.outputs.len()
                        ),
                    );
                    return false;
                }
            }
            true
        };
        if !check_positions(&real, &mut out) {
            return out;
        }
        // A driver failure in the middle of an expansion, caller keeps iterating: the rows that
        // follow must still be sent and checked the way their position says.
        if real.ended && dch.chance(1, 3) {
            let tags: Vec<Option<i64>> = real.items.iter().map(|i| if let RealItem::Row(r) = i { tag_of(r) } else { None }).collect();
            let pos = positions(&tags, &rows);
            let inner: Vec<usize> = (0..real.items.len()).filter(|i| matches!(pos[*i], Some((_, p)) if p >= 1)).collect();
            if !inner.is_empty() {
                let mut k = inner[dch.upto(inner.len())];
                let mut fspec = spec.clone();
                // either the driver fails at that call, or (one time in three) its answer to the
                // call of some checked item is malformed; the caller keeps iterating either way
                let checked_items: Vec<usize> = (0..real.items.len()).filter(|i| matches!(&real.items[*i], RealItem::Row(r) if !r.outputs.is_empty())).collect();
                let malformed = has_outs && !spec.layout.is_empty() && !checked_items.is_empty() && dch.chance(1, 3);
                if malformed {
                    k = checked_items[dch.upto(checked_items.len())];
                    let p = dch.upto(8);
                    // (an entry repeated or dropped changes the length of the answer; two entries swapped keep it: the answer is
                    // then refused part-way, after the entries in front of the first swapped one have been taken)
                    fspec.deviate_at = Some((k + 1, match dch.upto(3) {
                        0 => Deviation::Duplicate(p),
                        1 => Deviation::Drop(p),
                        _ => Deviation::Swap(p, p + 1 + dch.upto(3)),
                    }));
                    out.class("malformed-answer-then-more-rows");
                } else {
                    fspec.fail_at = Some(k + 1); // constructor = call 0, item k = call k + 1
                    out.class("driver-failure-inside-an-expansion");
                }
                let faulty = run_real(
                    &tc,
                    &built.sigs,
                    &fspec,
                    &RunOpts { max_next: 400, extra_after_end: 2, continue_after_driver_error: true, continue_after_error: malformed, fuel: fuel_for(t.facts.steps), ..Default::default() },
                );
                out.put("fault", format!("{} at call {} (item {k}), caller keeps iterating", if malformed { "malformed answer" } else { "driver fails" }, k + 1));
                for (i, item) in faulty.items.iter().enumerate() {
                    let before = faulty.log_len_before[i];
                    let after = faulty.log_len_before.get(i + 1).copied().unwrap_or(faulty.log.len());
                    match item {
                        RealItem::Row(r) => {
                            if after - before != 1 || faulty.log[before].inputs != r.inputs || (has_outs && faulty.log[before].read != (!r.outputs.is_empty() || !fspec.override_write)) {
                                out.fail("c02:protocol-broken-after-driver-error", format!("next() #{i} (after a driver failure at item {k}): {} calls, method/vector do not match the row", after - before));
                                return out;
                            }
                        }
                        RealItem::DriverErr(_) => {
                            if after - before != 1 {
                                out.fail("c02:driver-error-item-calls", format!("next() #{i} returned a driver error and made {} calls", after - before));
                                return out;
                            }
                        }
                        RealItem::Panic(p) => {
                            out.fail(p.key(), format!("next() #{i} panicked after a driver failure: {p}"));
                            return out;
                        }
                        // the item that got the malformed answer (a program that reads the
                        // dropped output later may fail again: the comparison ends there)
                        RealItem::RuntimeErr(_) if malformed && i == k && after - before == 1 => {}
                        RealItem::RuntimeErr(_) => break,
                    }
                }
                if !check_positions(&faulty, &mut out) {
                    return out;
                }
                // the end is the end in a run with an error item too: once next() has returned None, later calls return
                // None and send nothing
                if faulty.ended {
                    out.class("polled-after-none-in-a-run-with-an-error-item");
                    let m = faulty.items.len();
                    let base = faulty.log_len_before[m];
                    if faulty.log_len_before[m..].iter().any(|l| *l != base) {
                        out.fail("c02:call-after-none", format!("a driver call was made after next() had returned None (run with an error item at {k}, caller kept iterating)"));
                        return out;
                    }
                    if faulty.after_end.iter().any(|b| !*b) {
                        out.fail("c02:some-after-none", format!("next() returned Some after it had returned None (run with an error item at {k}, caller kept iterating)"));
                        return out;
                    }
                }
            }
        }
        let dropped_early = !real.ended && n == prefix;
        out.class_if(midclock > 0, "mid-clock-row");
        out.class_if(dropped_early, "early-drop");
        out.class_if(real.ended && extra > 0, "post-none-calls");
        out.nontrivial = (midclock > 0 || n >= 3) && (dropped_early || (real.ended && extra > 0));
        out
    }
}
