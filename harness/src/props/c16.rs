//! C16 - loading a .dig file is total and recovers the circuit interface and its tests.

use digital_test_runner::dig;
use digital_test_runner::errors::LoadTestError;
use digital_test_runner::{ParsedTestCase, SignalType};

use crate::choice::Ch;
use crate::digdoc::*;
use crate::engine::*;
use crate::gen::*;
use crate::model::*;
use crate::print::*;
use crate::real::*;

pub struct C16;

const FIXTURES: [&str; 5] = ["74162.dig", "74181.dig", "74779.dig", "Counter.dig", "adder.dig"];

fn fixture(i: usize) -> Option<String> {
    std::fs::read_to_string(format!("/repo/tests/data/{}", FIXTURES[i % FIXTURES.len()])).ok()
}

fn sig_of(s: &digital_test_runner::Signal) -> Option<Sig> {
    let d = |v: digital_test_runner::InputValue| inval(v);
    Some(Sig {
        name: s.name.clone(),
        bits: s.bits,
        kind: match &s.typ {
            SignalType::Input { default } => Kind::In(d(*default)),
            SignalType::Output => Kind::Out,
            SignalType::Bidirectional { default } => Kind::Bidir(d(*default)),
            SignalType::Virtual { .. } => return None,
        },
    })
}

fn gen_doc(ch: &mut Ch, out: &mut CaseOut) -> DigDoc {
    let mut cfg = Cfg::flow();
    cfg.n_in = (1, 4);
    cfg.n_out = (1, 3);
    cfg.n_bidir = (0, 2);
    cfg.interleave = true;
    cfg.widths = Widths::Mixed;
    cfg.wild_defaults = true;
    cfg.omit_cols = true;
    cfg.permute_header = true;
    cfg.allow_c = true;
    cfg.max_virtual = 1;
    cfg.max_depth = 2;
    cfg.max_block = 4;
    let mut sigs = gen_signals(ch, &cfg);
    // now and then a pin is labelled like one of the attribute keys of the file format
    if ch.chance(1, 8) {
        let i = ch.upto(sigs.len());
        let l = ["Bits", "InDefault", "Label", "Testdata", "isHighZ", "Value"][ch.upto(6)];
        if !sigs.iter().any(|s| s.name == l) {
            out.class("pin-labelled-like-an-attribute-key");
            sigs[i].name = l.to_string();
        }
    }
    let mut elements: Vec<Element> = vec![];
    for s in &sigs {
        let (kind, default) = match s.kind {
            Kind::Out => (PinKind::Out, None),
            Kind::In(d) | Kind::Bidir(d) => {
                let kind = if s.name == "CLK" || ch.chance(1, 6) { PinKind::Clock } else { PinKind::In };
                let default = match d {
                    InVal::Val(0) if ch.chance(1, 2) => None,
                    InVal::Val(v) => Some((Some(v), if ch.chance(1, 2) { Some(false) } else { None })),
                    InVal::Z => Some((if ch.chance(1, 2) { Some(0) } else { None }, Some(true))),
                };
                (kind, default)
            }
        };
        let bits = if s.bits == 1 && ch.chance(1, 2) { None } else { Some(s.bits) };
        elements.push(Element::Pin(Pin { kind, label: Some(s.name.clone()), bits, default }));
    }
    // unlabelled pins and labelled non-pin elements
    for _ in 0..ch.upto(4) {
        match ch.upto(5) {
            // a pin whose label begins or ends with a blank: no header can name it, but it is a labelled pin like any
            // other and keeps its label as it stands
            4 => {
                let l = [" EN", "EN ", " E N "][ch.upto(3)].to_string();
                if !elements.iter().any(|e| matches!(e, Element::Pin(p) if p.label.as_deref() == Some(l.as_str()))) {
                    elements.push(Element::Pin(Pin { kind: if ch.chance(1, 2) { PinKind::In } else { PinKind::Out }, label: Some(l), bits: Some(2), default: None }));
                }
            }
            0 => elements.push(Element::Pin(Pin { kind: PinKind::Out, label: None, bits: Some(3), default: None })),
            1 => elements.push(Element::Pin(Pin { kind: PinKind::In, label: None, bits: None, default: Some((Some(1), Some(false))) })),
            2 => elements.push(Element::Noise { element: ["Probe", "And", "Tunnel", "Text", "LED", "Register"][ch.upto(6)], label: Some(["Q", "A", "probe1", "R_out", "my label"][ch.upto(5)].to_string()), bits: Some(2) }),
            _ => elements.push(Element::Noise { element: "Const", label: None, bits: Some(4) }),
        }
    }
    // special _out patterns
    match ch.upto(8) {
        0 => {
            // an Out pin labelled <input>_out next to the input
            if let Some(i) = sigs.iter().find(|s| matches!(s.kind, Kind::In(_))).cloned() {
                out.class("pin-labelled-x_out-next-to-input-x");
                elements.push(Element::Pin(Pin { kind: PinKind::Out, label: Some(format!("{}_out", i.name)), bits: Some(i.bits), default: None }));
                // the tests use it as an ordinary output column
                sigs.push(Sig { name: format!("{}_out", i.name), bits: i.bits, kind: Kind::Out });
            }
        }
        2 => {
            // an In / Clock pin labelled <input>_out next to the input
            if let Some(i) = sigs.iter().find(|s| matches!(s.kind, Kind::In(_))).cloned() {
                out.class("input-pin-labelled-x_out-next-to-input-x");
                let kind = if ch.chance(1, 3) { PinKind::Clock } else { PinKind::In };
                elements.push(Element::Pin(Pin { kind, label: Some(format!("{}_out", i.name)), bits: Some(2), default: None }));
                // the tests use it as an ordinary input column
                sigs.push(Sig { name: format!("{}_out", i.name), bits: 2, kind: Kind::In(InVal::Val(0)) });
            }
        }
        1 => {
            // a pin labelled <output>_out
            if let Some(o) = sigs.iter().find(|s| matches!(s.kind, Kind::Out)).cloned() {
                elements.push(Element::Pin(Pin { kind: PinKind::Out, label: Some(format!("{}_out", o.name)), bits: None, default: None }));
                sigs.push(Sig { name: format!("{}_out", o.name), bits: 1, kind: Kind::Out });
            }
        }
        _ => {}
    }
    // tests
    let ntests = ch.upto(4);
    // (labels that differ from another only in blanks at either end are different labels)
    let labels = ["T1", "main", "T1", "a & b <test>", "é", "Testdata", "Label", " T1", "main ", " main"];
    for k in 0..ntests {
        let label = if ch.chance(1, 5) { None } else { Some(labels[ch.upto(labels.len())].to_string()) };
        let source = match ch.weighted(&[6, 2, 1, 1]) {
            0 => {
                // a program fitted to the pins (bidirectional pairs use <name>_out)
                let mut sub: Vec<u32> = vec![];
                for _ in 0..60 {
                    sub.push(ch.raw());
                }
                let b = gen_case_with(&mut Ch::new(&sub), &cfg, sigs.clone());
                let mut lch_data = vec![];
                for _ in 0..30 {
                    lch_data.push(ch.raw());
                }
                let opts = LayoutOpts::ALL;
                render(&program_lines(&b.prog), &mut Ch::new(&lch_data), opts).text
            }
            1 => {
                // free text behind a legal header
                let s = &sigs[ch.upto(sigs.len())];
                format!("{}\n# not a valid body <&> \"\n1 2 3 ( ;\n", s.name)
            }
            2 => {
                // header uses names that exist nowhere, or X_out with no X, or <output>_out
                out.class("header-names-outside-the-circuit");
                let o = sigs.iter().find(|s| matches!(s.kind, Kind::Out)).map(|s| s.name.clone()).unwrap_or("Q".into());
                match ch.upto(3) {
                    0 => "Foo_out A\n0 0\n".to_string(),
                    1 => format!("{o}_out\n0\n"),
                    _ => "NOPE\n1\n".to_string(),
                }
            }
            _ => {
                // no line break after the header / blank text
                out.class("test-without-header-line");
                ["A B", "   ", "\n\n"][ch.upto(3)].to_string()
            }
        };
        let _ = k;
        let at = ch.upto(elements.len() + 1);
        elements.insert(at, Element::Test(DigTest { label, source }));
    }
    // shuffle pins among the rest a little: document order of elements is free
    if ch.chance(1, 2) {
        let p = ch.permutation(elements.len());
        // keep the relative order of tests (their order is observable and checked)
        let tests: Vec<Element> = elements.iter().filter(|e| matches!(e, Element::Test(_))).cloned().collect();
        let mut shuffled: Vec<Element> = p.iter().map(|i| elements[*i].clone()).collect();
        let mut ti = 0;
        for e in shuffled.iter_mut() {
            if matches!(e, Element::Test(_)) {
                *e = tests[ti].clone();
                ti += 1;
            }
        }
        elements = shuffled;
    }
    // duplicate labels (loose documents)
    if ch.chance(1, 10) {
        if let Some(Element::Pin(p)) = elements.iter().find(|e| matches!(e, Element::Pin(p) if p.label.is_some())).cloned() {
            out.class("duplicate-pin-label");
            let mut p = p;
            // half of the duplicates are of the other direction (an Out pin labelled like an
            // input, an In pin labelled like an output)
            if ch.chance(1, 2) {
                out.class("duplicate-pin-label-other-direction");
                p.kind = if matches!(p.kind, PinKind::Out) { PinKind::In } else { PinKind::Out };
                p.default = None;
            }
            elements.push(Element::Pin(p));
        }
    }
    DigDoc { elements }
}

fn corrupt(ch: &mut Ch, text: &str) -> String {
    let mut s = text.to_string();
    let n = 1 + ch.upto(3);
    for _ in 0..n {
        if s.is_empty() {
            break;
        }
        let bound = |s: &str, mut i: usize| {
            while !s.is_char_boundary(i) {
                i -= 1;
            }
            i
        };
        match ch.upto(7) {
            0 => {
                // delete one character
                let i = bound(&s, ch.upto(s.len()));
                if let Some(c) = s[i..].chars().next() {
                    s.replace_range(i..i + c.len_utf8(), "");
                }
            }
            1 => {
                // delete one line
                let lines: Vec<&str> = s.split_inclusive('\n').collect();
                let k = ch.upto(lines.len());
                s = lines.iter().enumerate().filter(|(i, _)| *i != k).map(|(_, l)| *l).collect();
            }
            2 => {
                // truncate
                let i = bound(&s, ch.upto(s.len()));
                s.truncate(i);
            }
            3 => {
                // delete one tag (from '<' to the next '>')
                let starts: Vec<usize> = s.match_indices('<').map(|(i, _)| i).collect();
                if !starts.is_empty() {
                    let a = starts[ch.upto(starts.len())];
                    if let Some(b) = s[a..].find('>') {
                        s.replace_range(a..a + b + 1, "");
                    }
                }
            }
            4 => {
                // rename an element name / entry key
                let from = ["Label", "Bits", "InDefault", "Testdata", "testData", "dataString", "elementName", "string", "In<", "Out<"][ch.upto(10)];
                let to = ["Lable", "bits", "x", "entry", "int", "value"][ch.upto(6)];
                s = s.replacen(from, to, 1);
            }
            5 => {
                // empty out a text node
                let pats = ["<string>", "<int>", "<dataString>", "<elementName>"];
                let pat = pats[ch.upto(pats.len())];
                let occ: Vec<usize> = s.match_indices(pat).map(|(i, _)| i + pat.len()).collect();
                if !occ.is_empty() {
                    let a = occ[ch.upto(occ.len())];
                    if let Some(b) = s[a..].find('<') {
                        s.replace_range(a..a + b, "");
                    }
                }
            }
            _ => {
                // insert junk
                let i = bound(&s, ch.upto(s.len()));
                s.insert_str(i, ["<", ">", "&", "<entry>", "</entry>", "<!--", "]]>", "\u{0}", "é", "<string/>"][ch.upto(10)]);
            }
        }
    }
    s
}

/// load_test(i) == from_str(source i) + with_signals(file.signals) for the file as loaded
pub fn load_equations(file: &dig::File, out: &mut CaseOut) {
    let n = file.test_cases.len();
    for i in 0..n {
        let src = file.test_cases[i].source.clone();
        let lt = guarded(|| file.load_test(i));
        let lt = match lt {
            Err(p) => {
                out.fail(p.key(), format!("load_test({i}) panicked: {p}"));
                return;
            }
            Ok(r) => r,
        };
        let direct: Result<digital_test_runner::TestCase, (u8, String)> = match guarded(|| src.parse::<ParsedTestCase>()) {
            Err(p) => {
                out.fail(p.key(), format!("parsing test source {i} panicked: {p}"));
                return;
            }
            Ok(Err(e)) => Err((1, err_text(&e))),
            Ok(Ok(parsed)) => match guarded(|| parsed.with_signals(file.signals.clone())) {
                Err(p) => {
                    out.fail(p.key(), format!("binding test {i} panicked: {p}"));
                    return;
                }
                Ok(Err(e)) => Err((2, err_text(&e))),
                Ok(Ok(tc)) => Ok(tc),
            },
        };
        let same = match (&lt, &direct) {
            (Ok(a), Ok(b)) => a == b,
            (Err(LoadTestError::ParseError(e)), Err((1, m))) => err_text(e) == *m,
            (Err(LoadTestError::SignalError(e)), Err((2, m))) => err_text(e) == *m,
            _ => false,
        };
        if !same {
            out.fail(
                "c16:load-test-differs",
                format!(
                    "load_test({i}) = {:?}\n but parsing source {i} and binding it to the file's signals = {:?}",
                    lt.as_ref().map(|_| "Ok(test)").map_err(|e| err_text(e)),
                    direct.as_ref().map(|_| "Ok(test)")
                ),
            );
            return;
        }
        // by name: the first test with that label
        let name = file.test_cases[i].name.clone();
        let first = file.test_cases.iter().position(|t| t.name == name).unwrap();
        let by_name = guarded(|| file.load_test_by_name(&name));
        let first_lt = guarded(|| file.load_test(first));
        match (by_name, first_lt) {
            (Err(p), _) | (_, Err(p)) => {
                out.fail(p.key(), format!("load_test_by_name panicked: {p}"));
                return;
            }
            (Ok(a), Ok(b)) => {
                let same = match (&a, &b) {
                    (Ok(x), Ok(y)) => x == y,
                    (Err(x), Err(y)) => err_text(x) == err_text(y),
                    _ => false,
                };
                if !same {
                    out.fail("c16:by-name-differs", format!("load_test_by_name({name:?}) differs from load_test({first}), the first test with that label"));
                    return;
                }
            }
        }
    }
    match guarded(|| file.load_test(n)) {
        Err(p) => out.fail(p.key(), format!("load_test(len) panicked: {p}")),
        Ok(Ok(_)) => out.fail("c16:out-of-range-accepted", format!("load_test({n}) succeeded with {n} tests")),
        Ok(Err(_)) => {}
    }
    let unknown = "no such test \u{1F980}";
    if !file.test_cases.iter().any(|t| t.name == unknown) {
        match guarded(|| file.load_test_by_name(unknown)) {
            Err(p) => out.fail(p.key(), format!("load_test_by_name(unknown) panicked: {p}")),
            Ok(Ok(_)) => out.fail("c16:unknown-name-accepted", "load_test_by_name with an unknown name succeeded"),
            Ok(Err(_)) => {}
        }
    }
}

/// The oracle for arbitrary text, shared with the fuzz target: total + self-consistent.
pub fn dig_text_oracle(text: &str, out: &mut CaseOut) -> Option<dig::File> {
    out.owns_panics = true;
    match guarded(|| dig::File::parse(text)) {
        Err(p) => {
            out.fail(p.key(), format!("loading the document panicked: {p}"));
            None
        }
        Ok(Err(_)) => {
            out.class("load:err");
            other_entry_points(text, None, out);
            None
        }
        Ok(Ok(f)) => {
            out.class("load:ok");
            load_equations(&f, out);
            other_entry_points(text, Some(&f), out);
            Some(f)
        }
    }
}

/// `str::parse::<dig::File>()` and `dig::File::open(path)` are the other two documented ways to load a document; both
/// must be as total as `File::parse` and recover the same interface and tests from the same text. `open` is tried
/// for one text in eight (chosen by the text itself) through a scratch file that is removed again.
fn other_entry_points(text: &str, parsed: Option<&dig::File>, out: &mut CaseOut) {
    let show = |f: &dig::File| format!("{:?} {:?}", f.signals, f.test_cases);
    let want = parsed.map(show);
    match guarded(|| text.parse::<dig::File>()) {
        Err(p) => {
            out.fail(p.key(), format!("str::parse::<dig::File>() panicked: {p}"));
            return;
        }
        Ok(r) => {
            let got = r.ok().as_ref().map(show);
            if got != want {
                out.fail("c16:entry-points-differ", format!("str::parse::<dig::File>() gives {got:?}\n but File::parse gives {want:?}"));
                return;
            }
        }
    }
    let h = text.bytes().fold(0xcbf29ce484222325u64, |h, b| (h ^ b as u64).wrapping_mul(0x100000001b3));
    if h % 8 != 0 {
        return;
    }
    out.class("load:via-open");
    let path = std::env::temp_dir().join(format!("dtr-verif-{}-{:?}.dig", std::process::id(), std::thread::current().id()));
    if std::fs::write(&path, text).is_err() {
        return;
    }
    let r = guarded(|| dig::File::open(&path));
    let _ = std::fs::remove_file(&path);
    match r {
        Err(p) => out.fail(p.key(), format!("File::open panicked: {p}")),
        Ok(r) => {
            let got = r.ok().as_ref().map(show);
            if got != want {
                out.fail("c16:entry-points-differ", format!("File::open gives {got:?}\n but File::parse of the same text gives {want:?}"));
            }
        }
    }
}

impl Property for C16 {
    fn id(&self) -> &'static str {
        "C16"
    }
    fn rule(&self) -> &'static str {
        "profile `dig`: generated circuit descriptions - pins (In/Clock/Out, labelled or not, Bits or none, InDefault value / z=\"true\" / none), labelled non-pin elements (Probe, And, Tunnel, Text, ...), 0-3 tests (label or none, duplicate labels, XML-special characters; source = generated program fitted to the pins with random layout, or free text behind a legal header, or headers naming nothing / X_out with no X / <output>_out, or no header line) - rendered in Digital's XStream shape with shuffled attribute entries and XML escaping; label patterns around _out (an Out pin, or an In / Clock pin, labelled C_out next to In pin C); duplicate pin labels (of the same or of the other direction); pins and tests labelled like the format's own attribute keys (Bits, InDefault, Label, Testdata, ...); plus 1-3 corruptions (character / line / tag deletion, truncation, renamed keys, emptied text nodes, junk) of rendered documents and of the repository's five fixtures. Oracle: never a panic; uncorrupted documents with legal headers must load (also with repeated pin labels: then the signals are still the labelled pins, and of the pins sharing a label that a header uses as `<label>_out` exactly one input has become bidirectional); when an uncorrupted document loads, signals == exactly the labelled pins as a multiset (kind, width, default), bidirectional only under the stated condition, tests == (label, source) in document order; for every loaded file load_test(i) == parse(source i) + with_signals(file.signals) (equal TestCase, or same error kind and message), load_test_by_name == load_test(first index with that label), out-of-range index and unknown name are errors. Non-trivial: >= 3 labelled pins and >= 1 test, or an _out pattern, or a corruption that still loads; distinct by document text."
    }
    fn cases(&self, tier: Tier) -> u64 {
        match tier {
            Tier::Quick => 24000,
            Tier::Thorough => 24000 * 100,
        }
    }
    fn stream_lens(&self) -> [usize; 3] {
        [500, 60, 40]
    }
    fn required_classes(&self) -> Vec<&'static str> {
        vec!["uncorrupted", "corrupted-generated", "corrupted-fixture", "load:ok", "load:err", "bidirectional-inferred", "pin-labelled-x_out-next-to-input-x", "input-pin-labelled-x_out-next-to-input-x", "pin-labelled-like-an-attribute-key", "duplicate-pin-label-other-direction", "repeated-labels-checked", "header-names-outside-the-circuit", "corruption-still-loads", "strict-document", "duplicate-test-label"]
    }
    fn check_raw(&self, _kind: &str, data: &[u8]) -> Option<(String, String)> {
        crate::fuzzglue::dig_bytes_kv(data)
    }
    fn fuzz_targets(&self) -> Vec<&'static str> {
        vec!["dig_bytes"]
    }
    fn regressions(&self) -> Vec<Regression> {
        vec![Regression {
            name: "fixtures load and satisfy the load_test equations",
            run: || {
                for i in 0..FIXTURES.len() {
                    let text = fixture(i).ok_or("fixture missing")?;
                    let mut out = CaseOut::new();
                    if dig_text_oracle(&text, &mut out).is_none() {
                        return Err(format!("{} does not load", FIXTURES[i]));
                    }
                    if let Verdict::Fail { key, msg } = out.verdict {
                        return Err(format!("{}: {key}: {msg}", FIXTURES[i]));
                    }
                }
                Ok(())
            },
        }]
    }
    fn run(&self, s: &Streams) -> CaseOut {
        let mut out = CaseOut::new();
        let mut cch = Ch::new(&s[2]);
        let mode = cch.weighted(&[6, 3, 2]);
        if mode == 2 {
            // corrupted fixture
            out.class("corrupted-fixture");
            let Some(text) = fixture(cch.upto(FIXTURES.len())) else {
                out.discard("fixture-missing");
                return out;
            };
            let text = corrupt(&mut cch, &text);
            out.put("document-hash", format!("{:x} ({} bytes)", crate::choice::hash_str(&text), text.len()));
            if dig_text_oracle(&text, &mut out).is_some() {
                out.class("corruption-still-loads");
                out.nontrivial = true;
            }
            if out.is_fail() {
                out.put("document", text);
            }
            return out;
        }
        let doc = gen_doc(&mut Ch::new(&s[0]), &mut out);
        let xml = doc.render(&mut Ch::new(&s[1]));
        if mode == 1 {
            out.class("corrupted-generated");
            let text = corrupt(&mut cch, &xml);
            out.put("document", text.clone());
            if dig_text_oracle(&text, &mut out).is_some() {
                out.class("corruption-still-loads");
                out.nontrivial = true;
            }
            return out;
        }
        out.class("uncorrupted");
        out.put("document", xml.clone());
        let distinct = doc.labels_distinct();
        let legal = doc.headers_legal();
        let strict = distinct && legal;
        out.class_if(strict, "strict-document");
        let tests = doc.tests();
        out.class_if((0..tests.len()).any(|i| tests[i].label.is_some() && tests[..i].iter().any(|t| t.label == tests[i].label)), "duplicate-test-label");
        let file = dig_text_oracle(&xml, &mut out);
        if out.is_fail() {
            return out;
        }
        let Some(file) = file else {
            if legal {
                out.fail(
                    "c16:valid-document-rejected",
                    format!("an uncorrupted document with legal test headers ({} pin labels) did not load", if distinct { "distinct" } else { "some repeated" }),
                );
            }
            return out;
        };
        // signals: exactly the labelled pins, bidirectional only under the stated condition
        if distinct {
            let mut want = doc.expected_signals();
            let mut got: Vec<Sig> = file.signals.iter().filter_map(sig_of).collect();
            out.class_if(want.iter().any(|s| matches!(s.kind, Kind::Bidir(_))), "bidirectional-inferred");
            let key = |s: &Sig| (s.name.clone(), s.bits, format!("{:?}", s.kind));
            want.sort_by_key(key);
            got.sort_by_key(key);
            if want != got || got.len() != file.signals.len() {
                out.fail(
                    "c16:signals-differ",
                    format!("loaded signals [{}]\n should be      [{}]", describe_sigs(&got), describe_sigs(&want)),
                );
                return out;
            }
        }
        if !distinct && legal {
            // repeated labels: still exactly the labelled pins; of the pins sharing a label that a
            // header uses as `<label>_out`, exactly one - an input - has become bidirectional
            let collapse = |s: &Sig| (s.name.clone(), s.bits, match s.kind {
                Kind::Out => "out".to_string(),
                Kind::In(d) | Kind::Bidir(d) => format!("in:{d:?}"),
            });
            let pins: Vec<Sig> = {
                // (expected_signals without the inference: recompute from a document without tests)
                let mut d2 = doc.clone();
                d2.elements.retain(|e| !matches!(e, Element::Test(_)));
                d2.expected_signals()
            };
            let got: Vec<Sig> = file.signals.iter().filter_map(sig_of).collect();
            let mut a: Vec<_> = pins.iter().map(collapse).collect();
            let mut b: Vec<_> = got.iter().map(collapse).collect();
            a.sort();
            b.sort();
            if a != b || got.len() != file.signals.len() {
                out.fail("c16:signals-differ", format!("loaded signals [{}]\n should be the labelled pins [{}] (one input per inferred name bidirectional)", describe_sigs(&got), describe_sigs(&pins)));
                return out;
            }
            let mut inferred: Vec<String> = vec![];
            for t in &tests {
                if let Some(h) = DigDoc::header_of(&t.source) {
                    for name in h {
                        if let Some(stem) = name.strip_suffix("_out") {
                            if !pins.iter().any(|s| s.name == name) && pins.iter().any(|s| s.name == stem && matches!(s.kind, Kind::In(_))) && !inferred.iter().any(|x| x == stem) {
                                inferred.push(stem.to_string());
                            }
                        }
                    }
                }
            }
            let mut names: Vec<&String> = got.iter().map(|s| &s.name).collect();
            names.sort();
            names.dedup();
            for n in names {
                let nb = got.iter().filter(|s| s.name == *n && matches!(s.kind, Kind::Bidir(_))).count();
                let want = if inferred.contains(n) { 1 } else { 0 };
                if nb != want {
                    out.fail("c16:signals-differ", format!("{nb} signals called {n} are bidirectional, should be {want}; loaded [{}]", describe_sigs(&got)));
                    return out;
                }
            }
            out.class("repeated-labels-checked");
        }
        // tests: label and source verbatim, in document order
        if file.test_cases.len() != tests.len() {
            out.fail("c16:test-count", format!("{} tests loaded, the document has {}", file.test_cases.len(), tests.len()));
            return out;
        }
        for (i, (t, l)) in tests.iter().zip(&file.test_cases).enumerate() {
            if l.source != t.source {
                out.fail("c16:test-source-differs", format!("test {i}: source {:?} loaded as {:?}", t.source, l.source));
                return out;
            }
            if let Some(label) = &t.label {
                if l.name != *label {
                    out.fail("c16:test-label-differs", format!("test {i}: label {label:?} loaded as {:?}", l.name));
                    return out;
                }
            }
        }
        let labelled = doc.pins().iter().filter(|p| p.label.is_some()).count();
        let out_pattern = tests.iter().any(|t| DigDoc::header_of(&t.source).map(|h| h.iter().any(|n| n.ends_with("_out"))).unwrap_or(false));
        out.nontrivial = (labelled >= 3 && !tests.is_empty()) || out_pattern;
        out
    }
}
