//! C15 - deterministic and re-runnable; static iteration equals any dynamic run.

use digital_test_runner::ParsedTestCase;

use crate::choice::Ch;
use crate::device::*;
use crate::engine::*;
use crate::gen::*;
use crate::props::common::*;
use crate::real::*;

pub struct C15;

fn determinism_cfg() -> Cfg {
    let mut c = Cfg::flow();
    c.n_in = (1, 4);
    c.n_out = (1, 3);
    c.n_bidir = (0, 2);
    c.interleave = true;
    c.permute_header = true;
    c.max_virtual = 4;
    c.allow_c = true;
    c.allow_input_x = true;
    c.max_x = 2;
    c.max_depth = 3;
    c.expr.random = true;
    // signals may have no column in the header (several read outputs without one included)
    c.omit_cols = true;
    c
}

/// Structural signature of the open finding F1 (no message text involved): the program has a
/// `let N` inside a `while` body where N is also an output-capable signal, so that a read of N
/// can be a variable for the parser and the device output at run time.
fn f1_shape(prog: &crate::model::Program, sigs: &[crate::model::Sig]) -> bool {
    crate::model::names_let_in_while(prog).iter().any(|n| sigs.iter().any(|s| s.name == *n && s.is_output()))
}

impl Property for C15 {
    fn id(&self) -> &'static str {
        "C15"
    }
    fn rule(&self) -> &'static str {
        "profile `determinism`: programs with 0-4 declares, several C columns and device reads (all three parser hash maps populated), some using random, half of them made static (no device reads; a sixth of those with a planted `declare VF` over constants, which in two cases of three cannot be evaluated); headers that leave signals out; 2-8 repeated parses; 1-4 iterators over one TestCase stepped by a generated interleaving schedule, each with its own identically scripted driver and (via the seed hook) the same seed; two different device scripts. The caller goes on after error items in every run, static ones included. In a sixth of the cases the text is also embedded in a .dig document that is parsed as often (equal signal lists, order included, and equal loaded tests). Oracle: (a) all parses equal (ParsedTestCase: PartialEq) and all bound TestCases equal incl. the order of `signals`; (b) every iterator, sequential or interleaved, yields the same items; (c) try_iter_static().is_ok() iff the model's static analysis finds no device read, and then its rows equal the (inputs, expected, line) projection of dynamic runs under both scripts, and of a third run in which the driver's answer to one call is malformed (an entry dropped, repeated or of the wrong width) and the caller goes on after the error item: every item except the one that received the malformed answer equals the static one. Non-trivial: >= 2 declares, or >= 2 interleaved iterators over >= 3 rows, or a static program with >= 3 rows; distinct by source + signals + schedule."
    }
    fn cases(&self, tier: Tier) -> u64 {
        match tier {
            Tier::Quick => 32000,
            Tier::Thorough => 32000 * 100,
        }
    }
    fn required_classes(&self) -> Vec<&'static str> {
        vec!["declares>=2", "interleaved>=2", "static-program", "non-static-program", "random", "C-row", "reads-device", "rows-after-malformed-answer", "static-program-with-constant-declare", "static-items-after-an-error-item", "dig-document-with->=2-bidirectional"]
    }
    fn run(&self, s: &Streams) -> CaseOut {
        let mut out = CaseOut::new();
        let mut dch = Ch::new(&s[2]);
        let mut cfg = determinism_cfg();
        if dch.chance(1, 2) {
            // static programs: no device reads, no declares over outputs
            cfg.reads = false;
            cfg.max_virtual = 0;
        }
        let mut built = gen_case(&mut Ch::new(&s[0]), &cfg);
        // a static program may still declare virtual signals, as long as they read nothing; in a
        // sixth of the static cases one is planted whose expression cannot be evaluated: every
        // checked row is then an error item, in the static run and in every dynamic one
        if !cfg.reads && dch.chance(1, 6) {
            use crate::model::*;
            let e = match dch.upto(3) {
                0 => Expr::bin(BinOp::Div, Expr::lit(6), Expr::Group(Box::new(Expr::bin(BinOp::Sub, Expr::lit(2), Expr::lit(2))))),
                1 => Expr::bin(BinOp::Rem, Expr::lit(5), Expr::lit(0)),
                _ => Expr::bin(BinOp::Add, Expr::lit(1), Expr::lit(2)),
            };
            let at = dch.upto(built.prog.stmts.len() + 1);
            built.prog.stmts.insert(at, Stmt::Declare("VF".into(), e));
            built.analysis = analyse(&built.prog);
            out.class("static-program-with-constant-declare");
        }
        // One otherwise static program in eight ends with a `let` that reads a bidirectional signal (if the list has one):
        // that is a device read like any other - the program is not static any more.
        if !cfg.reads && dch.chance(1, 8) {
            use crate::model::*;
            if let Some(b) = built.sigs.iter().find(|s| matches!(s.kind, Kind::Bidir(_)) && crate::gen::is_ident(&s.name)).map(|s| s.name.clone()) {
                built.prog.stmts.push(Stmt::Let("rbq".into(), Expr::Group(Box::new(Expr::bin(BinOp::Add, Expr::var(&b), Expr::lit(0))))));
                built.analysis = analyse(&built.prog);
                out.class_if(built.analysis.reads.contains(&b), "only-read-is-a-bidirectional-signal");
            }
        }
        let text = built_text(&built);
        let spec = gen_spec(
            &mut dch,
            &built.sigs,
            &SpecCfg { palette: Palette::Small, zx: 0, free_layout: false, must_supply: built.must_supply(), both_driver_types: false },
        );
        let nparses = 2 + dch.upto(7);
        let niters = 1 + dch.upto(4);
        let seed = dch.u64();
        let sched: Vec<usize> = (0..dch.upto(80)).map(|_| dch.upto(niters)).collect();
        render_case(&mut out, &text, &built.sigs, Some(&spec));
        out.put("schedule", format!("parses={nparses} iterators={niters} seed={seed} steps={sched:?}"));
        let f = feats(&built);
        feat_classes(&mut out, &f);
        let is_static = built.analysis.is_static();
        out.class(if is_static { "static-program" } else { "non-static-program" });

        // (a) repeated parses
        let mut parsed: Vec<ParsedTestCase> = vec![];
        for k in 0..nparses {
            match parse(&text) {
                Err(p) => {
                    out.fail(p.key(), format!("parse #{k} panicked: {p}"));
                    return out;
                }
                Ok(Err(e)) => {
                    let _ = e;
                    out.discard("well-formed-program-rejected-by-parser");
                    return out;
                }
                Ok(Ok(p)) => parsed.push(p),
            }
        }
        for k in 1..nparses {
            if parsed[k] != parsed[0] {
                out.fail("c15:parses-differ", format!("parse #{k} of the same text is not equal to parse #0:\n{:?}\nvs\n{:?}", parsed[k], parsed[0]));
                return out;
            }
        }
        let mut tcs = vec![];
        for (k, p) in parsed.into_iter().enumerate() {
            match guarded(|| p.with_signals(to_signals(&built.sigs))) {
                Err(ps) => {
                    out.fail(ps.key(), format!("bind #{k} panicked: {ps}"));
                    return out;
                }
                Ok(Err(e)) => {
                    let _ = e;
                    out.discard("fitting-signal-list-rejected");
                    return out;
                }
                Ok(Ok(tc)) => tcs.push(tc),
            }
        }
        for k in 1..tcs.len() {
            if tcs[k] != tcs[0] {
                let names = |tc: &digital_test_runner::TestCase| tc.signals.iter().map(|s| s.name.clone()).collect::<Vec<_>>();
                out.fail(
                    "c15:testcases-differ",
                    format!("TestCase #{k} differs from #0; signals {:?} vs {:?}", names(&tcs[k]), names(&tcs[0])),
                );
                return out;
            }
        }
        let tc = &tcs[0];
        // (a') in a sixth of the cases the same text is also embedded in a .dig document, which is
        // parsed as often: the signal lists are equal, order included, and so are the loaded tests
        if dch.chance(1, 6) {
            let xml = dig_xml(&text, &built.sigs);
            let mut files = vec![];
            for k in 0..nparses {
                match guarded(|| digital_test_runner::dig::File::parse(&xml)) {
                    Err(p) => {
                        out.fail(p.key(), format!("parse #{k} of the .dig document panicked: {p}"));
                        return out;
                    }
                    Ok(Err(_)) => break,
                    Ok(Ok(f)) => files.push(f),
                }
            }
            if files.len() == nparses {
                out.class("dig-document-parsed-repeatedly");
                out.class_if(files[0].signals.iter().filter(|s| matches!(s.typ, digital_test_runner::SignalType::Bidirectional { .. })).count() >= 2, "dig-document-with->=2-bidirectional");
                let names = |f: &digital_test_runner::dig::File| f.signals.iter().map(|s| s.name.clone()).collect::<Vec<_>>();
                for k in 1..files.len() {
                    if files[k].signals != files[0].signals {
                        out.fail("c15:parses-differ", format!("parse #{k} of the same .dig document gives the signals {:?}, parse #0 {:?}", names(&files[k]), names(&files[0])));
                        return out;
                    }
                    let (a, b) = (guarded(|| files[0].load_test(0).ok()), guarded(|| files[k].load_test(0).ok()));
                    if let (Ok(a), Ok(b)) = (a, b) {
                        if a != b {
                            out.fail("c15:testcases-differ", format!("load_test(0) after parse #{k} of the same .dig document differs from the one after parse #0"));
                            return out;
                        }
                    }
                }
            }
        }

        // termination guard
        let t = crate::ri::run(&built.prog, &built.sigs, &spec, &crate::ri::RiOpts { draws: None, ..Default::default() });
        let uses_random = f.randoms > 0;
        if !uses_random && matches!(t.end, crate::ri::RiEnd::StepCap) {
            out.discard("step-cap");
            return out;
        }

        // (b) sequential baseline, then interleaved iterators
        // (the caller goes on after error items, in dynamic and in static runs alike)
        let opts = RunOpts { max_next: 120, seed: Some(seed), continue_after_error: true, ..Default::default() };
        let base = run_real(tc, &built.sigs, &spec, &opts);
        if let Some(RealItem::Panic(p)) = &base.ctor {
            out.fail(p.key(), format!("constructor panicked: {p}"));
            return out;
        }
        if let Some(RealItem::Panic(p)) = base.items.last() {
            out.fail(p.key(), format!("run panicked: {p}"));
            return out;
        }
        let again = run_real(&tcs[tcs.len() - 1], &built.sigs, &spec, &opts);
        if again.ctor != base.ctor || again.items != base.items {
            out.fail("c15:rerun-differs", "iterating the test a second time (same script, same seed) gave different items");
            return out;
        }
        // a clone of a TestCase that has been iterated is the same test (same text, same signal list): it runs the same
        match guarded(|| tc.clone()) {
            Err(p) => {
                out.fail(p.key(), format!("cloning a TestCase panicked: {p}"));
                return out;
            }
            Ok(cl) => {
                let cr = run_real(&cl, &built.sigs, &spec, &opts);
                if cr.ctor != base.ctor || cr.items != base.items {
                    out.fail("c15:rerun-differs", "iterating a clone of the TestCase (same script, same seed) gave different items");
                    return out;
                }
            }
        }
        // A second driver that lists its outputs in another order (same answers): a TestCase that has been iterated
        // before must behave like one parsed and bound afresh - behaviour is a function of text, signal list and the
        // driver's responses, nothing learnt from an earlier driver may stick to the TestCase.
        if spec.layout.len() >= 2 && base.ctor.is_none() {
            let mut spec2 = spec.clone();
            spec2.layout.rotate_left(1);
            if let Ok(Ok(p)) = parse(&text) {
                if let Ok(Ok(fresh_tc)) = guarded(|| p.with_signals(to_signals(&built.sigs))) {
                    out.class("second-driver-with-another-output-order");
                    let fresh = run_real(&fresh_tc, &built.sigs, &spec2, &opts);
                    let used = run_real(tc, &built.sigs, &spec2, &opts);
                    if used.ctor != fresh.ctor || used.items != fresh.items {
                        let k = used.items.iter().zip(fresh.items.iter()).position(|(a, b)| a != b).unwrap_or(used.items.len().min(fresh.items.len()));
                        out.fail(
                            "c15:earlier-driver-sticks",
                            format!(
                                "a driver listing its outputs in another order: the TestCase that had been iterated before gives ctor {:?}, item {k} = {:?}; a TestCase parsed and bound afresh gives ctor {:?}, item {k} = {:?}",
                                used.ctor.as_ref().map(|c| c.short()),
                                used.items.get(k).map(|x| x.short()),
                                fresh.ctor.as_ref().map(|c| c.short()),
                                fresh.items.get(k).map(|x| x.short())
                            ),
                        );
                        return out;
                    }
                }
            }
        }
        let mut interleaved_rows = 0;
        if base.ctor.is_none() {
            digital_test_runner::verif_hooks::set_seed_override(Some(seed));
            let mut drivers: Vec<Defaulting> = (0..niters).map(|_| Defaulting(Core::new(spec.clone(), &built.sigs))).collect();
            let mut got: Vec<Vec<RealItem>> = vec![vec![]; niters];
            let mut done = vec![false; niters];
            let its = guarded(|| drivers.iter_mut().map(|d| tc.try_iter(d)).collect::<Vec<_>>());
            match its {
                Err(p) => {
                    out.fail(p.key(), format!("constructing several iterators panicked: {p}"));
                }
                Ok(its) => {
                    let mut its: Vec<_> = its.into_iter().collect();
                    if its.iter().any(|i| i.is_err()) {
                        out.fail("c15:ctor-differs", "an additional iterator could not be constructed although the first could");
                    } else {
                        let mut its: Vec<_> = its.drain(..).map(|i| i.ok().unwrap()).collect();
                        for step in &sched {
                            let i = *step;
                            if done[i] || got[i].len() >= 120 {
                                continue;
                            }
                            let item = guarded(|| its[i].next().map(|r| r.map(|row| own_row(&row))));
                            match item {
                                Err(p) => {
                                    got[i].push(RealItem::Panic(p));
                                    done[i] = true;
                                }
                                Ok(None) => done[i] = true,
                                Ok(Some(Ok(r))) => got[i].push(RealItem::Row(r)),
                                Ok(Some(Err(e))) => {
                                    got[i].push(iter_err(&e, |d| d.id));
                                    done[i] = true;
                                }
                            }
                        }
                        drop(its);
                        for (i, g) in got.iter().enumerate() {
                            for (k, item) in g.iter().enumerate() {
                                if base.items.get(k) != Some(item) {
                                    out.fail(
                                        "c15:interleaved-differs",
                                        format!(
                                            "iterator {i} of {niters} (interleaved): item {k} is {}, a sequential run gives {:?}",
                                            item.short(),
                                            base.items.get(k).map(|x| x.short())
                                        ),
                                    );
                                    break;
                                }
                            }
                            if done[i] && g.len() < base.items.len() && !matches!(g.last(), Some(RealItem::RuntimeErr(_) | RealItem::DriverErr(_) | RealItem::Panic(_))) {
                                out.fail("c15:interleaved-ends-early", format!("iterator {i} ended after {} items, a sequential run gives {}", g.len(), base.items.len()));
                            }
                        }
                        if niters >= 2 {
                            interleaved_rows = got.iter().map(|g| g.len()).min().unwrap_or(0);
                        }
                    }
                }
            }
            let _ = digital_test_runner::verif_hooks::take_log();
            digital_test_runner::verif_hooks::set_seed_override(None);
            if out.is_fail() {
                return out;
            }
        }
        out.class_if(niters >= 2 && interleaved_rows >= 1, "interleaved>=2");

        // (c) static gate and static == dynamic
        let st = run_static_opts(tc, 120, Some(seed), true);
        let mut static_rows = 0;
        match (&st, is_static) {
            // (try_iter_static is this property's own subject: for a program that reads outputs it answers "no", and
            // "it panicked" is not that answer; for a static program a panic is C10's)
            (StaticRun::CtorPanic(p), false) => {
                out.fail("c15:static-accepted", format!("the program reads outputs {:?}; try_iter_static did not refuse it but panicked: {p}", built.analysis.reads));
                return out;
            }
            (StaticRun::CtorPanic(p), true) => {
                out.fail(p.key(), format!("try_iter_static panicked: {p}"));
                return out;
            }
            (StaticRun::NotStatic(m), true) => {
                out.fail("c15:static-refused", format!("the program reads no outputs but try_iter_static failed: {m}"));
                return out;
            }
            (StaticRun::Items { .. }, false) => {
                out.fail(
                    "c15:static-accepted",
                    format!("the program reads outputs {:?} but try_iter_static succeeded", built.analysis.reads),
                );
                return out;
            }
            (StaticRun::NotStatic(_), false) => {}
            (StaticRun::Items { items, ended }, true) => {
                let mut spec2 = spec.clone();
                spec2.seed ^= 0x5555_5555;
                spec2.palette = Palette::Boundary;
                spec2.zx = 64;
                let dyn2 = run_real(tc, &built.sigs, &spec2, &opts);
                // "whatever the driver returns": a third script whose answer to one call is
                // malformed (an entry dropped, repeated or of the wrong width). That row becomes
                // an error item, the caller goes on, and every other item is still the static one.
                let mut spec3 = spec.clone();
                let ncalls = base.log.len();
                let bad_call = if ncalls > 1 { 1 + dch.upto(ncalls - 1) } else { 0 };
                let p = dch.upto(8);
                spec3.deviate_at = Some((bad_call, [Deviation::Drop(p), Deviation::Duplicate(p), Deviation::Rewidth(p)][dch.upto(3)].clone()));
                let dyn3 = run_real(tc, &built.sigs, &spec3, &RunOpts { continue_after_error: true, ..RunOpts { max_next: 120, seed: Some(seed), ..Default::default() } });
                let static_ends_in_error = false;
                out.class_if(items.iter().enumerate().any(|(k, i)| matches!(i, StaticItem::Err(_)) && k + 1 < items.len()), "static-items-after-an-error-item");
                for (which, d) in [("first", &base), ("second", &dyn2), ("malformed-answer", &dyn3)] {
                    let third = which == "malformed-answer";
                    // the item during which the malformed answer was given
                    let excused = |k: usize| third && d.log_len_before.get(k).is_some_and(|b| *b <= bad_call) && d.log_len_before.get(k + 1).is_some_and(|a| bad_call < *a);
                    if d.ctor.is_some() {
                        out.fail("c15:static-vs-dynamic", format!("dynamic run under the {which} script could not be constructed: {:?}", d.ctor));
                        return out;
                    }
                    if let Some((k, StaticItem::Err(m))) = items.iter().enumerate().last() {
                        if f1_shape(&built.prog, &built.sigs) && !matches!(d.items.get(k), Some(RealItem::RuntimeErr(_))) {
                            out.fail(
                                "c15:static-run-reads-output-through-unassigned-variable",
                                format!("item {k}: static iteration fails with '{m}' where the dynamic run ({which} script) goes on: {:?}", d.items.get(k).map(|x| x.short())),
                            );
                            return out;
                        }
                    }
                    for (k, (si, di)) in items.iter().zip(&d.items).enumerate() {
                        match (si, di) {
                            (StaticItem::Err(m), RealItem::Row(_)) if f1_shape(&built.prog, &built.sigs) => {
                                // known finding (open): a name that is a variable for the parser
                                // (let on a path that did not run) but resolves to the device
                                // output of the same name at run time
                                out.fail(
                                    "c15:static-run-reads-output-through-unassigned-variable",
                                    format!("item {k}: static iteration fails with '{m}' where the dynamic run ({which} script) yields {}", di.short()),
                                );
                                return out;
                            }
                            (StaticItem::Row(sr), RealItem::Row(dr)) => {
                                let dexp: Vec<(String, crate::model::ExpVal)> = dr.outputs.iter().map(|o| (o.name.clone(), o.expected)).collect();
                                // mid-clock rows carry no expected values in either API
                                if sr.inputs != dr.inputs || sr.expected != dexp || sr.line != dr.line {
                                    out.fail(
                                        "c15:static-vs-dynamic",
                                        format!("item {k}: static {sr:?} vs dynamic ({which} script) {}", di.short()),
                                    );
                                    return out;
                                }
                            }
                            (StaticItem::Err(_), RealItem::RuntimeErr(_)) => {}
                            (StaticItem::Row(_), RealItem::RuntimeErr(_)) if excused(k) => {
                                out.class("dynamic-row-failed-by-malformed-answer");
                                out.class_if(k + 1 < items.len(), "rows-after-malformed-answer");
                            }
                            (StaticItem::Panic(p), _) => {
                                out.fail(p.key(), format!("static item {k} panicked: {p}"));
                                return out;
                            }
                            (a, b) => {
                                out.fail("c15:static-vs-dynamic", format!("item {k}: static {a:?} vs dynamic ({which} script) {}", b.short()));
                                return out;
                            }
                        }
                    }
                    if third && static_ends_in_error {
                        // the static run stops at its error item, this dynamic run goes on
                        continue;
                    }
                    if d.items.len() != items.len() || d.ended != *ended {
                        out.fail(
                            "c15:static-vs-dynamic",
                            format!("static iteration yields {} items (ended {ended}), the dynamic run under the {which} script {} (ended {})", items.len(), d.items.len(), d.ended),
                        );
                        return out;
                    }
                }
                static_rows = items.len();
            }
        }
        out.nontrivial = f.declares >= 2 || (niters >= 2 && interleaved_rows >= 3) || (is_static && static_rows >= 3);
        out
    }
}
