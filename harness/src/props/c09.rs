//! C09 - parsing is total: any text gives a test or a located error, never a panic.

use crate::choice::Ch;
use crate::engine::*;
use crate::gen::*;
use crate::print::*;
use crate::props::c12::break_cfg;
use crate::real::*;

pub struct C09;

pub const VOCAB: [&str; 107] = [
    // (identifiers may hold any Unicode digit: long ones whose multi-byte digits straddle bytes 16, 24 and 32)
    "abcdefghijklmnopqrstuvw\u{663}\u{664}\u{665}", "abcdefghijklmno\u{663}\u{0967}z", "i\u{0663}", "abcdefghijklmnopqrstuvwxyzabcde\u{ff11}\u{ff12}", "long_identifier_of_more_than_thirty_two_bytes_0123456789", "x\u{1d7d9}\u{1d7d9}\u{1d7d9}\u{1d7d9}\u{1d7d9}\u{1d7d9}\u{1d7d9}",
    "0x_", "0b__", "0x_1", "0b1_0", "1_000", "0_7",
    "0xFFFFFFFFFFFFFFFF", "0x8000000000000000", "0x10000000000000000", "01000000000000000000000",
    "0b1000000000000000000000000000000000000000000000000000000000000000", "0x7FFFFFFFFFFFFFFF", "\u{feff}",
    "end", "loop", "repeat", "bits", "let", "resetRandom", "while", "declare", "program", "init",
    "memory", "def", "call", "ite", "random", "signExt", "X", "Z", "C", "x", "z", "c", "a", "b",
    "i", "n", "Q", "looper", "end1", "_", "A_out", ",", ";", "+", "-", "*", "/", "%", "!", "~",
    "^", "&", "|", "<<", ">>", "=", "!=", "<=", ">=", "<", ">", "(", ")", "0", "1", "2", "7",
    "10", "64", "65", "0x1F", "0XaB", "0b101", "0B1", "017", "09", "0x", "0b2", "9223372036854775807",
    "9223372036854775808", "18446744073709551616", "\n", "\n", "\n", "\n", "# comment", "#", "$",
    "@", "é", "🦀", "\u{85}", "\u{2028}", "\0", "\r", "\t", "\u{c}", "'",
];

/// Validity of the locations of a parse error, and renderability.
/// Returns Err(description) if a span is out of bounds or not on character boundaries.
pub fn check_error_locations(text: &str, e: digital_test_runner::errors::ParseError) -> Result<bool, String> {
    let mut bad = None;
    for sp in &e.at {
        let ok = sp.start <= sp.end
            && sp.end <= text.len()
            && text.is_char_boundary(sp.start)
            && text.is_char_boundary(sp.end);
        if !ok {
            bad = Some(format!("span {}..{} is not inside the {}-byte source on character boundaries", sp.start, sp.end, text.len()));
            break;
        }
    }
    // rendering is the consequence: a diagnostic with the source attached must render
    let rendered = guarded(|| {
        let report = miette::Report::new(e).with_source_code(text.to_string());
        let mut s = String::new();
        let h = miette::GraphicalReportHandler::new_themed(miette::GraphicalTheme::unicode_nocolor());
        h.render_report(&mut s, report.as_ref()).map(|_| s)
    });
    let render_ok = matches!(rendered, Ok(Ok(_)));
    match bad {
        Some(b) => Err(format!("{b}; rendering {}", if render_ok { "succeeded" } else { "failed" })),
        None => match rendered {
            // every location is fine and the diagnostic still cannot be produced: formatting the error (or one of its
            // causes) panicked
            Err(p) => Err(format!("every location lies inside the source, yet rendering the error as a diagnostic panicked: {p}")),
            Ok(r) => Ok(r.is_ok()),
        },
    }
}

/// The oracle shared with the fuzz target. Returns (class, failure)
pub fn parse_oracle(text: &str) -> (&'static str, Option<(String, String)>) {
    match parse(text) {
        Err(p) => ("panic", Some((p.key(), format!("parsing panicked: {p}")))),
        Ok(Ok(_)) => ("outcome:ok", None),
        Ok(Err(e)) => {
            // (the texts of the error and of its causes are the crate's `Display` impls: they must not panic either)
            let class = match guarded(|| error_class(&e)) {
                Ok(c) => c,
                Err(p) => return ("panic", Some((p.key(), format!("formatting the parse error and its causes panicked: {p}")))),
            };
            match check_error_locations(text, e) {
                Ok(true) => (class, None),
                Ok(false) => ("render-failure-valid-spans", None),
                Err(m) => (class, Some((if m.starts_with("every location lies inside") { "c09:error-does-not-render" } else { "c09:bad-error-location" }.into(), m))),
            }
        }
    }
}

fn error_class(e: &digital_test_runner::errors::ParseError) -> &'static str {
    let m = err_text(e);
    for (pat, class) in [
        ("Unexpected EOF", "err:unexpected-eof"),
        ("Expected a new line", "err:expected-newline"),
        ("Unexpected token. Expected", "err:not-expected-token"),
        ("Unexpected token", "err:unexpected-token"),
        ("Unknown token", "err:unknown-token"),
        ("Expected a number", "err:expected-number"),
        ("Could not parse number", "err:number-parse"),
        ("Number of bits", "err:too-many-bits"),
        ("Expected C, X or Z", "err:expected-cxz"),
        ("Unexpected End token", "err:end-at-top-level"),
        ("Wrong number of entries", "err:row-width"),
        ("Function", "err:function-not-found"),
        ("Wrong number of arguments", "err:arity"),
        ("appears twice", "err:duplicate-signal"),
        ("declared twice", "err:duplicate-virtual"),
    ] {
        if m.contains(pat) {
            return class;
        }
    }
    "err:other"
}

/// rough nesting estimate (DESIGN C09 B): skip inputs that could exhaust the native stack
pub fn too_deep(text: &str) -> bool {
    let mut n = 0usize;
    for (i, c) in text.char_indices() {
        match c {
            '(' | '-' | '!' | '~' => n += 1,
            'l' if text[i..].starts_with("loop") => n += 1,
            'w' if text[i..].starts_with("while") => n += 1,
            _ => {}
        }
    }
    n > 1500
}

/// a header of 63-130 columns and rows of 0 / 1 / C / X / Z entries that fill it (or nearly do)
fn wide(ch: &mut Ch) -> String {
    let n = *ch.choose(&[63usize, 64, 65, 66, 70, 128, 130]);
    let mut t = String::new();
    for k in 0..n {
        t.push_str(&format!("S{k} "));
    }
    t.push('\n');
    for _ in 0..1 + ch.upto(4) {
        let m = match ch.upto(6) {
            0 => n - 1,
            1 => n + 1,
            _ => n,
        };
        for _ in 0..m {
            t.push_str(["0", "1", "C", "X", "Z", "c", "(1)"][ch.weighted(&[6, 4, 3, 2, 1, 1, 1])]);
            t.push(' ');
        }
        t.push('\n');
    }
    t
}

fn soup(ch: &mut Ch) -> String {
    if ch.chance(1, 16) {
        return wide(ch);
    }
    let mut t = String::new();
    // a plausible header
    match ch.upto(4) {
        0 => t.push_str("A B\n"),
        1 => t.push_str("CLK Q R\n"),
        2 => t.push_str("\n\n  A\tB Q \r\n"),
        _ => {
            for _ in 0..ch.upto(4) {
                t.push_str(VOCAB[ch.upto(VOCAB.len())]);
                t.push(' ');
            }
            t.push('\n');
        }
    }
    let n = ch.upto(60);
    for _ in 0..n {
        // statement-shaped fragments keep the parser going
        match ch.weighted(&[10, 2, 2, 2, 2, 1, 1, 1]) {
            7 => {
                // a bits entry whose width is any vocabulary item (mostly numbers of all kinds)
                t.push_str("bits(");
                t.push_str(VOCAB[ch.upto(VOCAB.len())]);
                t.push_str(",1)");
            }
            0 => t.push_str(VOCAB[ch.upto(VOCAB.len())]),
            1 => t.push_str("0 1\n"),
            2 => t.push_str("let a = "),
            3 => t.push_str("loop(i,2)\n"),
            4 => t.push_str("end loop\n"),
            5 => t.push_str("while("),
            _ => t.push_str("bits(2,"),
        }
        if !ch.chance(1, 5) {
            t.push(' ');
        }
    }
    t
}

fn mutate(ch: &mut Ch, text: &str) -> String {
    // token-ish mutation on whitespace-separated pieces, keeping line structure
    let mut pieces: Vec<String> = vec![];
    let mut cur = String::new();
    for c in text.chars() {
        if c == ' ' || c == '\n' {
            if !cur.is_empty() {
                pieces.push(std::mem::take(&mut cur));
            }
            pieces.push(c.to_string());
        } else {
            cur.push(c);
        }
    }
    if !cur.is_empty() {
        pieces.push(cur);
    }
    let k = 1 + ch.upto(4);
    for _ in 0..k {
        if pieces.is_empty() {
            break;
        }
        let i = ch.upto(pieces.len());
        match ch.upto(8) {
            7 => {
                // the block keyword behind an `end` swapped for the other one
                let ends: Vec<usize> = (0..pieces.len()).filter(|j| pieces[*j] == "end").collect();
                if !ends.is_empty() {
                    let e = ends[ch.upto(ends.len())];
                    if let Some(j) = (e + 1..pieces.len()).find(|j| pieces[*j] == "loop" || pieces[*j] == "while") {
                        pieces[j] = if pieces[j] == "loop" { "while".to_string() } else { "loop".to_string() };
                    }
                }
            }
            6 => {
                // the width of a bits entry replaced by a vocabulary item
                if let Some(j) = (0..pieces.len()).map(|d| (i + d) % pieces.len()).find(|j| pieces[*j].contains("bits(")) {
                    let p = pieces[j].clone();
                    let at = p.find("bits(").unwrap() + 5;
                    let end = p[at..].find(|c: char| !c.is_ascii_alphanumeric()).map(|e| at + e).unwrap_or(p.len());
                    pieces[j] = format!("{}{}{}", &p[..at], VOCAB[ch.upto(VOCAB.len())], &p[end..]);
                }
            }
            0 => {
                pieces.remove(i);
            }
            1 => {
                let p = pieces[i].clone();
                pieces.insert(i, p);
            }
            2 => {
                let j = ch.upto(pieces.len());
                pieces.swap(i, j);
            }
            3 => pieces[i] = VOCAB[ch.upto(VOCAB.len())].to_string(),
            4 => pieces.insert(i, VOCAB[ch.upto(VOCAB.len())].to_string()),
            _ => {
                // glue two pieces together (removes the blank between tokens)
                if i + 1 < pieces.len() {
                    let n = pieces.remove(i + 1);
                    pieces[i].push_str(&n);
                }
            }
        }
    }
    let mut s: String = pieces.concat();
    if ch.chance(1, 3) {
        // truncate at any character boundary
        let cut = ch.upto(s.len() + 1);
        let mut c = cut;
        while !s.is_char_boundary(c) {
            c -= 1;
        }
        s.truncate(c);
    }
    s
}

impl Property for C09 {
    fn id(&self) -> &'static str {
        "C09"
    }
    fn rule(&self) -> &'static str {
        "three generators: (a) token soup over the full vocabulary (every keyword incl. program/memory/init/def/call, every operator, identifiers, four integer kinds incl. malformed and overflowing ones and hex / octal / binary literals with bit 63 set (also as the width of a bits entry), X Z C, punctuation, newline, comments, junk: $ @ e-acute crab U+0085 U+2028 NUL CR TAB FF) behind a plausible header, mixed with statement-shaped fragments, or (1 in 16) a header of 63-130 columns with rows of 0 / 1 / C / X / Z entries that fill it; (b) valid generated programs with 1-4 token deletions / duplications / swaps / replacements / insertions / gluings / swapped block keywords behind `end` and truncation at any character boundary; (c, thorough) libFuzzer target parse_bytes on raw bytes seeded with the repository's test sources and a token dictionary. One text in twelve starts with a byte order mark. Oracle: from_str returns; no panic; for Err(e) every span in e.at has start <= end <= len on char boundaries; the error renders with miette's graphical handler. Non-trivial: the text has a header line and at least one further token; distinct by text."
    }
    fn cases(&self, tier: Tier) -> u64 {
        match tier {
            Tier::Quick => 240000,
            Tier::Thorough => 240000 * 100,
        }
    }
    fn required_classes(&self) -> Vec<&'static str> {
        vec!["outcome:ok", "err:unexpected-eof", "err:unknown-token", "err:row-width", "err:number-parse", "gen:soup", "gen:mutated", "non-ascii", "kw:program-family", "leading-byte-order-mark", "err:too-many-bits", "header>=65-columns"]
    }
    fn check_raw(&self, _kind: &str, data: &[u8]) -> Option<(String, String)> {
        crate::fuzzglue::parse_bytes_kv(data)
    }
    fn fuzz_targets(&self) -> Vec<&'static str> {
        vec!["parse_bytes"]
    }
    fn regressions(&self) -> Vec<Regression> {
        fn no_panic_err(text: &str) -> Result<(), String> {
            match parse_oracle(text) {
                (_, Some((k, m))) => Err(format!("{k}: {m}")),
                ("outcome:ok", None) => Err(format!("accepted: {text:?}")),
                _ => Ok(()),
            }
        }
        vec![
            Regression { name: "S9 program statement is an error, not a panic", run: || no_panic_err("A B\nprogram(1,2)\n0 0\n") },
            Regression { name: "S9 init/memory/def/call are errors, not panics", run: || {
                for kw in ["init", "memory", "def", "call"] {
                    no_panic_err(&format!("A B\n{kw} x = 1;\n"))?;
                }
                Ok(())
            } },
            Regression { name: "S10 C past the last column", run: || no_panic_err("A B\n0 0 X X C\n") },
            Regression { name: "S11 unary operator in binary position", run: || {
                no_panic_err("A B\n(1 ! 2) 0\n")?;
                no_panic_err("A B\n(1 ~ 2) 0\n")
            } },
        ]
    }
    fn run(&self, s: &Streams) -> CaseOut {
        let mut out = CaseOut::new();
        out.owns_panics = true;
        let mut ch = Ch::new(&s[2]);
        let text = if ch.chance(1, 2) {
            out.class("gen:soup");
            soup(&mut Ch::new(&s[0]))
        } else {
            out.class("gen:mutated");
            let built = gen_case(&mut Ch::new(&s[0]), &break_cfg());
            let r = render(&program_lines(&built.prog), &mut Ch::new(&s[1]), LayoutOpts::ALL);
            mutate(&mut ch, &r.text)
        };
        // one text in twelve starts with a byte order mark
        let text = if ch.chance(1, 12) {
            out.class("leading-byte-order-mark");
            format!("{}{text}", '\u{feff}')
        } else {
            text
        };
        out.put("source", text.clone());
        if too_deep(&text) {
            out.discard("nesting-guard");
            return out;
        }
        out.class_if(!text.is_ascii(), "non-ascii");
        out.class_if(text.lines().next().map(|l| l.split_whitespace().count() >= 65).unwrap_or(false), "header>=65-columns");
        out.class_if(["program", "init", "memory", "def ", "call"].iter().any(|k| text.contains(k)), "kw:program-family");
        let (class, fail) = parse_oracle(&text);
        out.class(class);
        if let Some((k, m)) = fail {
            out.fail(k, m);
        }
        // header line and at least one further token
        let mut lines = text.lines().filter(|l| !l.trim().is_empty());
        out.nontrivial = lines.next().is_some() && lines.next().is_some();
        out
    }
}
