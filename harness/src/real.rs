//! Running the crate under test: recording scripted drivers, panic capture, owned copies
//! of everything the crate returns.

use std::cell::RefCell;
use std::rc::Rc;
use std::collections::BTreeMap;
use std::panic::{catch_unwind, AssertUnwindSafe};

use digital_test_runner::{
    DataRow, ExpectedValue, InputEntry, InputValue, OutputEntry, OutputValue, ParsedTestCase,
    Signal, TestCase, TestDriver,
};

use crate::device::*;
use crate::model::*;

// ---------------------------------------------------------------------------------------------
// panic capture

#[derive(Clone, Debug, PartialEq, Eq)]
pub struct PanicSig {
    pub message: String,
    pub file: String,
    pub line: u32,
}

impl PanicSig {
    /// exact signature used as known-finding key: message prefix + source file
    pub fn key(&self) -> String {
        let msg: String = self.message.chars().take(60).collect();
        let file = self.file.rsplit("/src/").next().unwrap_or(&self.file);
        format!("panic:{}@{}", msg, file)
    }
}

impl PanicSig {
    /// the step fuel of the verif-hooks feature ran out: a run-away next(), not a crash
    pub fn is_fuel(&self) -> bool {
        self.message.starts_with(digital_test_runner::verif_hooks::FUEL_EXHAUSTED)
    }
    /// the wall-clock deadline of the verif-hooks feature passed: slowness or a hang, never a verdict
    pub fn is_deadline(&self) -> bool {
        self.message.starts_with(digital_test_runner::verif_hooks::DEADLINE_PASSED)
    }
}

impl std::fmt::Display for PanicSig {
    fn fmt(&self, f: &mut std::fmt::Formatter<'_>) -> std::fmt::Result {
        write!(f, "panic '{}' at {}:{}", self.message, self.file, self.line)
    }
}

thread_local! {
    static LAST_PANIC: RefCell<Option<PanicSig>> = const { RefCell::new(None) };
    static CAPTURE: RefCell<bool> = const { RefCell::new(false) };
}

pub fn install_panic_hook() {
    let default = std::panic::take_hook();
    std::panic::set_hook(Box::new(move |info| {
        let capturing = CAPTURE.with(|c| *c.borrow());
        if capturing {
            let message = if let Some(s) = info.payload().downcast_ref::<&str>() {
                s.to_string()
            } else if let Some(s) = info.payload().downcast_ref::<String>() {
                s.clone()
            } else {
                "<non-string panic payload>".to_string()
            };
            let (file, line) = info
                .location()
                .map(|l| (l.file().to_string(), l.line()))
                .unwrap_or_else(|| ("<unknown>".to_string(), 0));
            LAST_PANIC.with(|p| {
                // keep the innermost (first) panic
                let mut p = p.borrow_mut();
                if p.is_none() {
                    *p = Some(PanicSig { message, file, line });
                }
            });
        } else {
            default(info);
        }
    }));
}

/// Run `f`, which calls into the crate, and turn a panic into a value.
pub fn guarded<T>(f: impl FnOnce() -> T) -> Result<T, PanicSig> {
    LAST_PANIC.with(|p| *p.borrow_mut() = None);
    let prev = CAPTURE.with(|c| std::mem::replace(&mut *c.borrow_mut(), true));
    let r = catch_unwind(AssertUnwindSafe(f));
    CAPTURE.with(|c| *c.borrow_mut() = prev);
    match r {
        Ok(v) => Ok(v),
        Err(_) => Err(LAST_PANIC.with(|p| p.borrow_mut().take()).unwrap_or(PanicSig {
            message: "<panic not captured>".into(),
            file: "<unknown>".into(),
            line: 0,
        })),
    }
}

// ---------------------------------------------------------------------------------------------
// conversions

pub fn to_signal(s: &Sig) -> Signal {
    let dv = |d: InVal| match d {
        InVal::Val(v) => InputValue::Value(v),
        InVal::Z => InputValue::Z,
    };
    match s.kind {
        Kind::In(d) => Signal::input(s.name.clone(), s.bits, dv(d)),
        Kind::Out => Signal::output(s.name.clone(), s.bits),
        Kind::Bidir(d) => Signal::bidirectional(s.name.clone(), s.bits, dv(d)),
    }
}

pub fn to_signals(sigs: &[Sig]) -> Vec<Signal> {
    sigs.iter().map(to_signal).collect()
}

pub fn inval(v: InputValue) -> InVal {
    match v {
        InputValue::Value(n) => InVal::Val(n),
        InputValue::Z => InVal::Z,
    }
}
pub fn outval(v: OutputValue) -> OutVal {
    match v {
        OutputValue::Value(n) => OutVal::Val(n),
        OutputValue::Z => OutVal::Z,
        OutputValue::X => OutVal::X,
    }
}
pub fn expval(v: ExpectedValue) -> ExpVal {
    match v {
        ExpectedValue::Value(n) => ExpVal::Val(n),
        ExpectedValue::Z => ExpVal::Z,
        ExpectedValue::X => ExpVal::X,
    }
}
pub fn to_outputvalue(v: OutVal) -> OutputValue {
    match v {
        OutVal::Val(n) => OutputValue::Value(n),
        OutVal::Z => OutputValue::Z,
        OutVal::X => OutputValue::X,
    }
}

// ---------------------------------------------------------------------------------------------
// recording scripted driver

#[derive(Clone, Debug, PartialEq, Eq)]
pub struct Call {
    /// true = the output-reading method was invoked
    pub read: bool,
    pub inputs: Vec<(String, InVal, bool)>,
    /// what the device answered (signal index into the signal list, value)
    pub answer: Vec<(usize, OutVal)>,
    pub failed: bool,
    /// the scripted deviation from the first layout was applied to this answer
    pub deviated: bool,
}

#[derive(Debug)]
pub struct DriverError {
    pub id: u64,
}
impl std::fmt::Display for DriverError {
    fn fmt(&self, f: &mut std::fmt::Formatter<'_>) -> std::fmt::Result {
        write!(f, "scripted driver failure {:#x}", self.id)
    }
}
impl std::error::Error for DriverError {}

#[derive(Debug)]
pub struct Core {
    pub spec: DriverSpec,
    /// clones of the signals handed to `with_signals`
    pub signals: Vec<Signal>,
    /// same names, different width (for the Rewidth deviation)
    pub rewidthed: Vec<Signal>,
    pub log: Rc<RefCell<Vec<Call>>>,
    pub reads: usize,
    pub total: usize,
    /// signal slots swapped in place for the previous answer (to be swapped back)
    pub swapped: Option<(usize, usize)>,
    /// a signal the test does not know (see DriverSpec::foreign)
    pub foreign: Signal,
}

impl Core {
    pub fn new(spec: DriverSpec, sigs: &[Sig]) -> Self {
        let signals = to_signals(sigs);
        let rewidthed = signals
            .iter()
            .map(|s| {
                let mut t = s.clone();
                t.bits = if s.bits == 1 { 2 } else { s.bits - 1 };
                t
            })
            .collect();
        Core { spec, signals, rewidthed, log: Rc::new(RefCell::new(vec![])), reads: 0, total: 0, swapped: None, foreign: Signal::output("ZZforeign", 8) }
    }

    fn record(&mut self, read: bool, inputs: &[InputEntry<'_>]) -> usize {
        let mut log = self.log.borrow_mut();
        log.push(Call {
            read,
            inputs: inputs
                .iter()
                .map(|e| (e.signal.name.clone(), inval(e.value), e.changed))
                .collect(),
            answer: vec![],
            failed: false,
            deviated: false,
        });
        log.len() - 1
    }

    fn do_read(&mut self, inputs: &[InputEntry<'_>]) -> Result<Vec<OutputEntry<'_>>, DriverError> {
        if let Some((a, b)) = self.swapped.take() {
            self.signals.swap(a, b);
        }
        let li = self.record(true, inputs);
        let t = self.total;
        self.total += 1;
        if self.spec.fail_at == Some(t) {
            self.log.borrow_mut()[li].failed = true;
            return Err(DriverError { id: fail_id(&self.spec, t) });
        }
        let c = t;
        self.reads += 1;
        // (signal index, rewidthed?, value)
        let mut ans: Vec<(usize, bool, OutVal)> =
            self.spec.layout.iter().map(|s| (*s, false, self.spec.answer(c, *s))).collect();
        if let Some((at, dev)) = &self.spec.deviate_at {
            // (an answer without entries can only grow)
            if (*at == c || self.spec.deviate_again == Some(c)) && (!ans.is_empty() || matches!(dev, Deviation::Add(_) | Deviation::AddForeign)) {
                self.log.borrow_mut()[li].deviated = true;
                let n = ans.len().max(1);
                match dev {
                    Deviation::Drop(p) => {
                        ans.remove(p % n);
                    }
                    Deviation::Add(s) => ans.push((*s, false, self.spec.answer(c, *s))),
                    Deviation::Duplicate(p) => {
                        let e = ans[p % n];
                        ans.insert(p % n, e);
                    }
                    Deviation::Swap(p, q) => ans.swap(p % n, q % n),
                    Deviation::Substitute(p, s) => {
                        ans[p % n] = (*s, false, self.spec.answer(c, *s));
                    }
                    Deviation::Rewidth(p) => ans[p % n].1 = true,
                    Deviation::ForeignReplaced(_) | Deviation::AddForeign => {}
                    Deviation::SwapInPlace(p, q) => {
                        let (a, b) = (ans[p % n].0, ans[q % n].0);
                        if a != b {
                            self.signals.swap(a, b);
                            self.swapped = Some((a, b));
                        }
                    }
                }
            }
        }
        // what was reported, by signal identity (a slot swapped in place names the other signal)
        let ident = |s: usize| match self.swapped {
            Some((a, b)) if s == a => b,
            Some((a, b)) if s == b => a,
            _ => s,
        };
        self.log.borrow_mut()[li].answer = ans.iter().map(|(s, _, v)| (ident(*s), *v)).collect();
        let mut result: Vec<OutputEntry<'_>> = ans
            .into_iter()
            .map(|(s, rw, v)| OutputEntry {
                signal: if rw { &self.rewidthed[s] } else { &self.signals[s] },
                value: to_outputvalue(v),
            })
            .collect();
        if let Some((at, Deviation::AddForeign)) = &self.spec.deviate_at {
            if *at == c || self.spec.deviate_again == Some(c) {
                // (not logged: no entry of the test can refer to it)
                result.push(OutputEntry { signal: &self.foreign, value: OutputValue::Value(77) });
            }
        }
        if self.spec.foreign {
            match &self.spec.deviate_at {
                Some((at, Deviation::ForeignReplaced(s))) if *at == c || self.spec.deviate_again == Some(c) => {
                    let v = self.spec.answer(c, *s);
                    self.log.borrow_mut()[li].answer.push((*s, v));
                    result.push(OutputEntry { signal: &self.signals[*s], value: to_outputvalue(v) });
                }
                // (the unknown signal is not logged: no entry of the test can refer to it)
                _ => result.push(OutputEntry { signal: &self.foreign, value: OutputValue::Value(77) }),
            }
        }
        Ok(result)
    }

    fn do_write(&mut self, inputs: &[InputEntry<'_>]) -> Result<(), DriverError> {
        if let Some((a, b)) = self.swapped.take() {
            self.signals.swap(a, b);
        }
        let li = self.record(false, inputs);
        let t = self.total;
        self.total += 1;
        if self.spec.fail_at == Some(t) {
            self.log.borrow_mut()[li].failed = true;
            return Err(DriverError { id: fail_id(&self.spec, t) });
        }
        Ok(())
    }
}

/// Driver type that leaves `write_input` at its default (forwarding) implementation
#[derive(Debug)]
pub struct Defaulting(pub Core);
/// Driver type that overrides `write_input`
#[derive(Debug)]
pub struct Overriding(pub Core);

impl TestDriver for Defaulting {
    type Error = DriverError;
    fn write_input_and_read_output(
        &mut self,
        inputs: &[InputEntry<'_>],
    ) -> Result<Vec<OutputEntry<'_>>, Self::Error> {
        self.0.do_read(inputs)
    }
}

impl TestDriver for Overriding {
    type Error = DriverError;
    fn write_input_and_read_output(
        &mut self,
        inputs: &[InputEntry<'_>],
    ) -> Result<Vec<OutputEntry<'_>>, Self::Error> {
        self.0.do_read(inputs)
    }
    fn write_input(&mut self, inputs: &[InputEntry<'_>]) -> Result<(), Self::Error> {
        self.0.do_write(inputs)
    }
}

pub trait HasCore: TestDriver<Error = DriverError> {
    fn core(&self) -> &Core;
    fn core_mut(&mut self) -> &mut Core;
}
impl HasCore for Defaulting {
    fn core(&self) -> &Core {
        &self.0
    }
    fn core_mut(&mut self) -> &mut Core {
        &mut self.0
    }
}
impl HasCore for Overriding {
    fn core(&self) -> &Core {
        &self.0
    }
    fn core_mut(&mut self) -> &mut Core {
        &mut self.0
    }
}

// ---------------------------------------------------------------------------------------------
// owned copies of rows

#[derive(Clone, Debug, PartialEq, Eq)]
pub struct RealOut {
    pub name: String,
    pub bits: usize,
    pub is_virtual: bool,
    pub output: OutVal,
    pub expected: ExpVal,
    pub check: bool,
    /// the same verdict through the two value-level entry points: `OutputValue::check(expected)` and
    /// `ExpectedValue::check(output)`
    pub check_by_value: (bool, bool),
    pub is_checked: bool,
}

#[derive(Clone, Debug, PartialEq, Eq)]
pub struct RealRow {
    pub inputs: Vec<(String, InVal, bool)>,
    pub outputs: Vec<RealOut>,
    /// positions (into `outputs`) reported by failing_outputs()
    pub failing: Vec<usize>,
    pub line: usize,
}

pub fn own_row(row: &DataRow<'_>) -> RealRow {
    let outputs: Vec<RealOut> = row
        .outputs
        .iter()
        .map(|o| RealOut {
            name: o.signal.name.clone(),
            bits: o.signal.bits,
            is_virtual: matches!(o.signal.typ, digital_test_runner::SignalType::Virtual { .. }),
            output: outval(o.output),
            expected: expval(o.expected),
            check: o.check(),
            check_by_value: (o.output.check(o.expected), o.expected.check(o.output)),
            is_checked: o.is_checked(),
        })
        .collect();
    let failing = row
        .failing_outputs()
        .map(|f| {
            row.outputs.iter().position(|o| std::ptr::eq(o, f)).expect("failing entry is one of outputs")
        })
        .collect();
    RealRow {
        inputs: row
            .inputs
            .iter()
            .map(|e| (e.signal.name.clone(), inval(e.value), e.changed))
            .collect(),
        outputs,
        failing,
        line: row.line,
    }
}

#[derive(Clone, Debug, PartialEq, Eq)]
pub enum RealItem {
    Row(RealRow),
    RuntimeErr(String),
    DriverErr(u64),
    Panic(PanicSig),
}

impl RealItem {
    pub fn short(&self) -> String {
        match self {
            RealItem::Row(r) => format!(
                "row line={} in=[{}] out=[{}]",
                r.line,
                r.inputs
                    .iter()
                    .map(|(n, v, c)| format!("{n}={v}{}", if *c { "*" } else { "" }))
                    .collect::<Vec<_>>()
                    .join(" "),
                r.outputs
                    .iter()
                    .map(|o| format!("{}:{}/{}", o.name, o.output, o.expected))
                    .collect::<Vec<_>>()
                    .join(" ")
            ),
            RealItem::RuntimeErr(m) => format!("runtime error: {m}"),
            RealItem::DriverErr(id) => format!("driver error {id:#x}"),
            RealItem::Panic(p) => format!("{p}"),
        }
    }
}

#[derive(Clone, Debug)]
pub struct RealRun {
    /// None = constructed fine
    pub ctor: Option<RealItem>,
    pub items: Vec<RealItem>,
    /// vars() after each item that is a row (same index as items; None for non-rows)
    pub vars: Vec<Option<BTreeMap<String, i64>>>,
    /// driver log length observed before each next() call (index k = before the k-th next)
    pub log_len_before: Vec<usize>,
    /// iteration ended with None at items.len()
    pub ended: bool,
    /// results of extra next() calls after None (true = None again)
    pub after_end: Vec<bool>,
    pub log: Vec<Call>,
    pub draws: Vec<crate::ri::DrawEv>,
    pub new_runs: usize,
}

fn err_chain(e: &dyn std::error::Error) -> String {
    let mut s = e.to_string();
    let mut cur = e.source();
    while let Some(c) = cur {
        s.push_str(": ");
        s.push_str(&c.to_string());
        cur = c.source();
    }
    s
}

pub fn iter_err<E: std::error::Error + 'static>(
    e: &digital_test_runner::errors::IterationError<E>,
    id_of: impl Fn(&E) -> u64,
) -> RealItem {
    match e {
        digital_test_runner::errors::IterationError::Driver(d) => RealItem::DriverErr(id_of(d)),
        digital_test_runner::errors::IterationError::Runtime(r) => RealItem::RuntimeErr(err_chain(r)),
    }
}

/// fuel for runs that are not guarded by a reference run (about half a second of spinning)
pub const DEFAULT_FUEL: u64 = 20_000_000;

/// wall-clock limit of one run inside the crate; passing it is a discard, never a verdict
pub const RUN_DEADLINE_MS: u64 = 1500;

/// fuel for a run whose reference finished in `steps` statement executions
pub fn fuel_for(steps: usize) -> Option<u64> {
    Some(16 * steps as u64 + 20_000)
}

pub struct RunOpts {
    /// maximal number of next() calls
    pub max_next: usize,
    /// extra next() calls after the first None
    pub extra_after_end: usize,
    pub want_vars: bool,
    /// seed override for the crate's random generator (None = leave the crate alone)
    pub seed: Option<u64>,
    /// keep calling next() after a runtime error item
    pub continue_after_error: bool,
    /// keep calling next() after a driver error item
    pub continue_after_driver_error: bool,
    /// step fuel for the crate's statement iterator over the whole run (verif-hooks)
    pub fuel: Option<u64>,
}

impl Default for RunOpts {
    fn default() -> Self {
        RunOpts { max_next: 2000, extra_after_end: 0, want_vars: false, seed: Some(0), continue_after_error: false, continue_after_driver_error: false, fuel: Some(DEFAULT_FUEL) }
    }
}

fn take_draws() -> (Vec<crate::ri::DrawEv>, usize) {
    use digital_test_runner::verif_hooks::Event;
    let mut v = vec![];
    let mut runs = 0;
    for e in digital_test_runner::verif_hooks::take_log() {
        match e {
            Event::NewRun { .. } => runs += 1,
            Event::GenDraw => v.push(crate::ri::DrawEv::GenDraw),
            Event::Draw { bound, value } => v.push(crate::ri::DrawEv::Draw { bound, value }),
            Event::Reset => v.push(crate::ri::DrawEv::Reset),
        }
    }
    (v, runs)
}

fn run_with<D: HasCore>(tc: &TestCase, mut driver: D, opts: &RunOpts) -> RealRun {
    digital_test_runner::verif_hooks::set_seed_override(opts.seed);
    digital_test_runner::verif_hooks::set_fuel(opts.fuel);
    digital_test_runner::verif_hooks::set_deadline(Some(std::time::Instant::now() + std::time::Duration::from_millis(RUN_DEADLINE_MS)));
    let _ = digital_test_runner::verif_hooks::take_log();
    let mut run = RealRun {
        ctor: None,
        items: vec![],
        vars: vec![],
        log_len_before: vec![],
        ended: false,
        after_end: vec![],
        log: vec![],
        draws: vec![],
        new_runs: 0,
    };
    let log = driver.core().log.clone();
    {
        let it = guarded(|| tc.try_iter(&mut driver));
        match it {
            Err(p) => run.ctor = Some(RealItem::Panic(p)),
            Ok(Err(e)) => run.ctor = Some(iter_err(&e, |d| d.id)),
            Ok(Ok(mut it)) => {
                for _ in 0..opts.max_next {
                    run.log_len_before.push(log.borrow().len());
                    let item = guarded(|| it.next().map(|r| r.map(|row| own_row(&row))));
                    match item {
                        Err(p) => {
                            run.items.push(RealItem::Panic(p));
                            run.vars.push(None);
                            break;
                        }
                        Ok(None) => {
                            run.ended = true;
                            break;
                        }
                        Ok(Some(Ok(row))) => {
                            run.items.push(RealItem::Row(row));
                            if opts.want_vars {
                                let v = guarded(|| it.vars());
                                match v {
                                    Ok(v) => run.vars.push(Some(v.into_iter().collect())),
                                    Err(p) => {
                                        run.vars.push(None);
                                        run.items.push(RealItem::Panic(p));
                                        run.vars.push(None);
                                        break;
                                    }
                                }
                            } else {
                                run.vars.push(None);
                            }
                        }
                        Ok(Some(Err(e))) => {
                            let item = iter_err(&e, |d| d.id);
                            let go_on = (opts.continue_after_error && matches!(item, RealItem::RuntimeErr(_)))
                                || (opts.continue_after_driver_error && matches!(item, RealItem::DriverErr(_)));
                            run.items.push(item);
                            run.vars.push(None);
                            if !go_on {
                                break;
                            }
                        }
                    }
                }
                if run.ended {
                    for _ in 0..opts.extra_after_end {
                        run.log_len_before.push(log.borrow().len());
                        match guarded(|| it.next().is_none()) {
                            Ok(b) => run.after_end.push(b),
                            Err(p) => {
                                run.items.push(RealItem::Panic(p));
                                run.vars.push(None);
                                break;
                            }
                        }
                    }
                }
                run.log_len_before.push(log.borrow().len());
                drop(it);
            }
        }
    }
    run.log = log.borrow().clone();
    let (d, n) = take_draws();
    run.draws = d;
    run.new_runs = n;
    digital_test_runner::verif_hooks::set_seed_override(None);
    digital_test_runner::verif_hooks::set_fuel(None);
    digital_test_runner::verif_hooks::set_deadline(None);
    run
}

/// Run a bound test against the scripted driver described by `spec`.
pub fn run_real(tc: &TestCase, sigs: &[Sig], spec: &DriverSpec, opts: &RunOpts) -> RealRun {
    let core = Core::new(spec.clone(), sigs);
    if spec.override_write {
        run_with(tc, Overriding(core), opts)
    } else {
        run_with(tc, Defaulting(core), opts)
    }
}

#[derive(Debug)]
pub enum LoadErr {
    Parse(String),
    Bind(String),
    Panic(PanicSig),
}

pub fn parse(text: &str) -> Result<Result<ParsedTestCase, digital_test_runner::errors::ParseError>, PanicSig> {
    guarded(|| text.parse::<ParsedTestCase>())
}

/// parse + bind under `guarded`
pub fn load(text: &str, sigs: &[Sig]) -> Result<TestCase, LoadErr> {
    match parse(text) {
        Err(p) => Err(LoadErr::Panic(p)),
        Ok(Err(e)) => Err(LoadErr::Parse(err_chain(&e))),
        Ok(Ok(parsed)) => match guarded(|| parsed.with_signals(to_signals(sigs))) {
            Err(p) => Err(LoadErr::Panic(p)),
            Ok(Err(e)) => Err(LoadErr::Bind(err_chain(&e))),
            Ok(Ok(tc)) => Ok(tc),
        },
    }
}

pub fn err_text(e: &dyn std::error::Error) -> String {
    err_chain(e)
}

// ---------------------------------------------------------------------------------------------
// static iteration

#[derive(Clone, Debug, PartialEq, Eq)]
pub struct StaticRow {
    pub inputs: Vec<(String, InVal, bool)>,
    pub expected: Vec<(String, ExpVal)>,
    pub line: usize,
}

#[derive(Clone, Debug, PartialEq, Eq)]
pub enum StaticItem {
    Row(StaticRow),
    Err(String),
    Panic(PanicSig),
}

#[derive(Clone, Debug)]
pub enum StaticRun {
    /// try_iter_static refused: the test is not static
    NotStatic(String),
    CtorPanic(PanicSig),
    Items { items: Vec<StaticItem>, ended: bool },
}

pub fn run_static(tc: &TestCase, max_next: usize, seed: Option<u64>) -> StaticRun {
    run_static_opts(tc, max_next, seed, false)
}

/// as `run_static`; with `go_on` the caller keeps calling next() after an error item
pub fn run_static_opts(tc: &TestCase, max_next: usize, seed: Option<u64>, go_on: bool) -> StaticRun {
    digital_test_runner::verif_hooks::set_seed_override(seed);
    digital_test_runner::verif_hooks::set_fuel(Some(DEFAULT_FUEL));
    digital_test_runner::verif_hooks::set_deadline(Some(std::time::Instant::now() + std::time::Duration::from_millis(RUN_DEADLINE_MS)));
    let _ = digital_test_runner::verif_hooks::take_log();
    let r = match guarded(|| tc.try_iter_static()) {
        Err(p) => StaticRun::CtorPanic(p),
        Ok(Err(e)) => StaticRun::NotStatic(err_chain(&e)),
        Ok(Ok(mut it)) => {
            let mut items = vec![];
            let mut ended = false;
            for _ in 0..max_next {
                let item = guarded(|| {
                    it.next().map(|r| {
                        r.map(|row| StaticRow {
                            inputs: row
                                .inputs
                                .iter()
                                .map(|e| (e.signal.name.clone(), inval(e.value), e.changed))
                                .collect(),
                            expected: row
                                .expected
                                .iter()
                                .map(|e| (e.signal.name.clone(), expval(e.value)))
                                .collect(),
                            line: row.line,
                        })
                    })
                });
                match item {
                    Err(p) => {
                        items.push(StaticItem::Panic(p));
                        break;
                    }
                    Ok(None) => {
                        ended = true;
                        break;
                    }
                    Ok(Some(Ok(r))) => items.push(StaticItem::Row(r)),
                    Ok(Some(Err(e))) => {
                        items.push(StaticItem::Err(err_chain(&e)));
                        if !go_on {
                            break;
                        }
                    }
                }
            }
            StaticRun::Items { items, ended }
        }
    };
    let _ = digital_test_runner::verif_hooks::take_log();
    digital_test_runner::verif_hooks::set_seed_override(None);
    digital_test_runner::verif_hooks::set_fuel(None);
    digital_test_runner::verif_hooks::set_deadline(None);
    r
}
