#![no_main]
//! C10: bytes -> choice streams -> chaos program + driver; no-panic + hazard oracle inside.
use libfuzzer_sys::fuzz_target;

fuzz_target!(init: { dtr_verif::fuzzglue::init(); }, |data: &[u8]| {
    if let Some(msg) = dtr_verif::fuzzglue::run_structured(data) {
        eprintln!("ORACLE VIOLATION: {msg}");
        std::process::abort();
    }
});
