#![no_main]
//! C16: raw bytes -> (if UTF-8) dig::File::parse + load_test equations.
use libfuzzer_sys::fuzz_target;

fuzz_target!(init: { dtr_verif::fuzzglue::init(); }, |data: &[u8]| {
    if let Some(msg) = dtr_verif::fuzzglue::dig_bytes(data) {
        eprintln!("ORACLE VIOLATION: {msg}");
        std::process::abort();
    }
});
