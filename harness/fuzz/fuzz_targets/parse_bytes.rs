#![no_main]
//! C09: raw bytes -> (if UTF-8) parse; the oracle (no panic, valid error locations) is inside.
use libfuzzer_sys::fuzz_target;

fuzz_target!(init: { dtr_verif::fuzzglue::init(); }, |data: &[u8]| {
    if let Some(msg) = dtr_verif::fuzzglue::parse_bytes(data) {
        eprintln!("ORACLE VIOLATION: {msg}");
        std::process::abort();
    }
});
